"""Seeded generation: swarm configuration and the per-step operation choice.
Every draw comes from the one random.Random handed in by the runner."""
from .ops import KINDS, View
from .world import CH, FI, F_NAME

ALPHABETS = {
    "ascii": ["x", "y", "hello", "A b", "42", "0.5", "true", ""],
    "xml": ["a < b & c", "\"q\"", "it's", "&amp;", "&lt;x&gt;", "<para>t</para>", "]]>", "a>b", "&#65;", "<!-- c -->"],
    "unicode": ["\u00e9", "\u03a9", "\u6f22\u5b57", "\U0001F600", "\ud800", "\u00a0", "\u0000",
                "\u200b", "e\u0301", "\ufeff", "\U0010FFFF", "\u0085", "\u2028", "a\u2029b", "\x0b", "\x1c", "\x7f"],
    "space": [" ", "\t", "\n", "  ", " x ", "a  b", "\r\n", "\u00a0 ", " 2017 ", "\t2017-05-01", " 0.5 ", "42 ",
              " all ", "2017\n"],
    # text that looks like the syntax of the formats the library reads and writes
    "syntax": ["[north, south, ]", "{\"a\": 1,}", ",]", ", }", "\\", "\"", "\\\"", "null", "\\u0041", "}]", "[{",
               "</x>", "<![CDATA[x]]>", "&#x41;", "xmlns:p=\"u\"", "'", "\\n", "a,\n]"],
    "long": ["a" * 64, "ab " * 100, "\u00e9" * 300, "x" * 5000, "<&>" * 40, "word " * 25],
}
NAME_POOL = ["a", "b", "c", "d", "e", "f", "A", "ab", "B"]     # case variants and a name that extends another
PREFIX_POOL = ["p", "q", "r", "xml", "x-y", "P"]
URI_POOL = ["u:1", "u:2", "http://x/3", "u:4", "http://x/3/", "u:1/"]
ATTR_KEYS = ["id", "k", "scope", "system", "xml:lang", "{u:1}a", "{http://x/3}b", "{u:2}a"]


CREATORS = frozenset(["new", "copy", "import_xml", "import_json", "eml_seed", "json_twin"])


class NoCand(Exception):
    pass


def pick_steps(rng):
    r = rng.random()
    if r < 0.005:
        return rng.randrange(600, 1000)      # a few very long histories (accumulation, thresholds)
    if r < 0.6:
        return rng.randrange(5, 40)
    if r < 0.9:
        return rng.randrange(40, 120)
    return rng.randrange(120, 300)


def base_cfg(rng, seed):
    k = rng.choice([1, 1, 2, 3, 4, 6])
    cfg = {
        "seed": seed,
        "nsess": rng.choice([1, 1, 2, 2, 3, 4]),
        "steps": pick_steps(rng),
        "universe": rng.choice([3, 4, 5, 6, 8, 12, 20, 40, 80, 120]),
        "names": sorted(rng.sample(NAME_POOL, k)),
        "prefixes": sorted(rng.sample(PREFIX_POOL, rng.choice([1, 2, 3]))),
        "uris": sorted(rng.sample(URI_POOL, rng.choice([2, 3, 4]))),
        "alphabets": sorted(rng.sample(sorted(ALPHABETS), rng.choice([1, 1, 2, 4]))),
        "p_explicit_id": rng.choice([0.0, 0.0, 0.2, 0.7]),
        "p_delete_old": rng.choice([0.0, 0.5, 0.5, 1.0]),
        "p_delete_children": rng.choice([0.2, 0.5, 0.8, 1.0]),
        "p_setns_children": rng.choice([1.0, 1.0, 0.5]),
        "max_copy": rng.choice([5, 20, 400]),
        "burst": rng.choice([1, 1, 3, 10]),
        "faults": True,
        "shape": rng.choice(["mixed", "mixed", "wide", "deep"]),
        "json_corpus": rng.random() < 0.06,     # runs in which the repository's JSON fixture may be loaded
    }
    return cfg


def swarm_weights(rng, base, keep=()):
    """Swarm: a random subset of kinds is disabled per run, the rest get a
    random multiplier.  Kinds in keep are never disabled."""
    w = {}
    for k, v in base.items():
        if v <= 0:
            continue
        if k not in keep and rng.random() < 0.15:
            continue
        w[k] = v * rng.choice([0.3, 1, 1, 1, 3])
    return w


class G:
    """Generation context for one step."""

    def __init__(self, rng, cfg, world, snap, V, sess):
        self.rng, self.cfg, self.w, self.snap, self.V, self.sess = rng, cfg, world, snap, V, sess

    def fresh(self):
        self.w.fresh_counter += 1
        return self.w.fresh_counter

    def name(self):
        return self.rng.choice(self.cfg["names"])

    def prefix(self):
        return self.rng.choice(self.cfg["prefixes"])

    def uri(self):
        return self.rng.choice(self.cfg["uris"])

    def attr_key(self):
        return self.rng.choice(ATTR_KEYS)

    def text(self):
        rng = self.rng
        al = ALPHABETS[rng.choice(self.cfg["alphabets"])]
        if rng.random() < 0.7:
            return rng.choice(al)
        return "".join(rng.choice(al) for _ in range(rng.randrange(2, 4)))

    def any_node(self):
        c = self.V.cands("own", self.sess)
        if not c:
            raise NoCand()
        return self.rng.choice(c)

    def sel(self, cat, h):
        return self.V.cands(cat, self.sess).index(h)

    def pick_parent(self, own):
        """Bias towards nodes that already have children and towards roots of
        larger trees, so trees grow deep and wide instead of staying pairs."""
        rng = self.rng
        shape = self.cfg.get("shape", "mixed")
        if shape != "mixed" and rng.random() < (0.97 if self.cfg.get("huge_fanout") else 0.6):
            s = self.snap
            if shape == "wide":
                # a few hubs collect most children: long sibling lists
                par = self.V.cands("par", self.sess)
                if par:
                    top = sorted(par, key=lambda h: -len(s.cells[h][CH]))[:1 if self.cfg.get("huge_fanout") else 2]
                    return rng.choice(top)
            else:
                # keep extending the most recently attached nodes: deep chains
                lst = self.V.cands("lst", self.sess)
                if lst:
                    return lst[-1] if rng.random() < 0.7 else rng.choice(lst[-3:])
        r = rng.random()
        if r < 0.35:
            par = self.V.cands("par", self.sess)
            if par:
                return rng.choice(par)
        elif r < 0.5:
            lst = self.V.cands("lst", self.sess)
            if lst:
                return rng.choice(lst)
        return rng.choice(own)

    def ns_target(self):
        own = self.V.cands("own", self.sess)
        if not own:
            return None
        recent = getattr(self.w, "recent_ns", None)
        if recent and self.rng.random() < 0.5:
            c = [h for h in recent if h in own]
            if c:
                return self.rng.choice(c)
        return self.pick_parent(own)

    def name_below(self, n):
        s = self.snap
        sub = s.subtree(n)[1:]
        if sub and self.rng.random() < 0.8:
            return s.name(self.rng.choice(sub))
        return self.name()

    def path_below(self, n):
        """A path of names: usually a real walk downwards (random child at each
        level, so greedy first-child lookups may need backtracking), sometimes
        with a wrong name in it, sometimes empty."""
        s, rng = self.snap, self.rng
        r = rng.random()
        if r < 0.05:
            return []
        path = []
        cur = n
        for _ in range(rng.randrange(1, 5)):
            ch = [c for c in s.cells[cur][CH] if isinstance(c, int)]
            if not ch:
                break
            cur = rng.choice(ch)
            path.append(s.name(cur))
        if not path or r < 0.2:
            path.append(self.name())
        return path


def propose(rng, cfg, weights, world, snap, V):
    """One operation for the next step, or None if nothing is possible."""
    sess = world.cur_sess
    if world.burst_left <= 0:
        sess = world.cur_sess = rng.randrange(cfg["nsess"])
        world.burst_left = rng.randrange(1, cfg["burst"] + 1)
    world.burst_left -= 1
    g = G(rng, cfg, world, snap, V, sess)
    kinds = list(weights)
    wts = [weights[k] for k in kinds]
    nown = len(V.cands("own", sess))
    crowded = len(snap.cells) - snap.cells.count(None) > cfg.get("world_cap", 700)
    for _ in range(12):
        k = rng.choices(kinds, wts)[0]
        if k == "new" and nown >= cfg["universe"]:
            continue
        if crowded and k in CREATORS:
            continue        # the world is large enough: a step costs a snapshot of all of it
        if k != "new" and nown == 0:
            k = "new" if "new" in weights else k
        try:
            op = KINDS[k].gen(g)
        except NoCand:
            op = None
        if op is not None:
            return op
    return None
