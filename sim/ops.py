"""Operation alphabet: for each kind, how it is generated, resolved against
the current world, executed against the real library, and what it is
specified to do (footprint + effect; everything else is frame)."""
import io
import json
import sys

from . import bootstrap as B
from .world import (CH, PA, NS, FI, RG, F_ID, F_NAME, F_CONTENT, F_TAIL, F_PREFIX,
                    F_ATTRS, F_EXTRAS)

Node = B.Node
Shift = B.Shift

KINDS = {}


class Skip(Exception):
    """The op cannot be resolved in this world (precondition of the harness)."""


class Exp:
    """Specification of one step relative to the pre-state."""
    __slots__ = ("cells", "free", "judged", "notes")

    def __init__(self):
        self.cells = {}     # (handle, aspect) -> required value | predicate
        self.free = set()   # (handle, aspect) adopted without judgement
        self.judged = True  # False: stated precondition unmet, adopt everything
        self.notes = {}

    def want(self, h, a, v):
        self.cells[(h, a)] = v

    def adopt(self, h, *aspects):
        for a in aspects:
            self.free.add((h, a))


class Out:
    __slots__ = ("ok", "value", "exc")

    def __init__(self, ok, value=None, exc=None):
        self.ok, self.value, self.exc = ok, value, exc

    def brief(self):
        return "ok" if self.ok else type(self.exc).__name__


def kind(name, mutating=True, readonly=False):
    def deco(cls):
        cls.kind = name
        cls.mutating = mutating
        cls.readonly = readonly
        KINDS[name] = cls()
        return cls
    return deco


class View:
    """Candidate sets over a snapshot, per session, in handle order."""

    def __init__(self, world, snap):
        self.w = world
        self.s = snap
        self._c = {}

    def cands(self, cat, sess):
        key = (cat, sess)
        r = self._c.get(key)
        if r is None:
            s, ow = self.s, self.w.owner
            own = [h for h, c in enumerate(s.cells) if c is not None and ow[h] == sess]
            if cat == "own":
                r = own
            elif cat == "unl":
                r = [h for h in own if h not in s.listers]
            elif cat == "lst":
                r = [h for h in own if h in s.listers]
            elif cat == "par":
                r = [h for h in own if s.cells[h][CH]]
            elif cat == "reg":
                r = [h for h in own if s.cells[h][RG]]
            else:
                raise KeyError(cat)
            self._c[key] = r
        return r

    def pick(self, cat, sess, sel):
        c = self.cands(cat, sess)
        if not c:
            raise Skip(cat)
        return c[sel % len(c)]


def _sel_of(cands, h):
    return cands.index(h)


# ---------------------------------------------------------------- helpers
def _with_field(fields, idx, v):
    f = list(fields)
    f[idx] = v
    return tuple(f)


def _dict_set(items, k, v):
    out = []
    hit = False
    for kk, vv in items:
        if kk == k:
            out.append((kk, v))
            hit = True
        else:
            out.append((kk, vv))
    if not hit:
        out.append((k, v))
    return tuple(out)


def _ns_set(ns, k, v):
    d = dict(ns)
    d[k] = v
    return tuple(sorted(d.items(), key=repr))


def _ns_del(ns, k):
    d = dict(ns)
    d.pop(k, None)
    return tuple(sorted(d.items(), key=repr))


def _ns_of(d):
    return tuple(sorted(d.items(), key=repr))


def struct_ok(pre, *handles):
    """The model's own well-formedness for the operands: cells readable."""
    for h in handles:
        c = pre.cells[h]
        if c is None or not isinstance(c[CH], tuple) or (c[CH] and c[CH][0] == "notlist"):
            return False
    return True


# ---------------------------------------------------------------- creation
@kind("new")
class New:
    def gen(self, g):
        op = {"k": "new", "s": g.sess, "name": g.name()}
        r = g.rng.random()
        if r < 0.3:
            op["content"] = g.text()
        if g.rng.random() < g.cfg["p_explicit_id"]:
            n = g.fresh()
            if g.rng.random() < 0.5:
                op["id"] = "x%d" % n
            else:
                # distinct strings that spell one uuid in three ways, or look like numbers
                base = "abcdef00-0000-4000-8000-%012x" % (n // 3)
                op["id"] = [base, base.upper(), base.replace("-", "")][n % 3] if g.rng.random() < 0.7 else \
                    ["%d" % n, "%d.0" % n, "0%d" % n][n % 3]
        return op

    def resolve(self, V, op):
        return {}

    def run(self, W, R, op):
        kw = {}
        if "id" in op:
            kw["id"] = op["id"]
        if "content" in op:
            kw["content"] = op["content"]
        n = Node(op["name"], **kw)
        W.handle(n, op["s"])
        return n

    def spec(self, pre, R, op, out):
        return Exp()


def _field_op(name, fidx, setter):
    @kind(name)
    class FieldOp:
        def gen(self, g):
            h = g.any_node()
            v = g.text() if g.rng.random() < 0.85 else None
            if fidx == F_CONTENT and g.rng.random() < 0.6:
                from . import rulesview as RV
                tv = RV.typed_values(g.snap.name(h))
                if tv:
                    v = g.rng.choice(tv)
            if fidx == F_CONTENT and g.snap.name(h) == "references":
                v = g.rng.choice(["id0", "id1", "id2", " id0 ", "id1\n", "nosuch", None, "ds1", ""])
            if fidx == F_PREFIX:
                v = g.prefix() if g.rng.random() < 0.8 else None
            if fidx == F_NAME:
                v = g.name()
            return {"k": name, "s": g.sess, "n": g.sel("own", h), "v": v}

        def resolve(self, V, op):
            return {"n": V.pick("own", op["s"], op["n"])}

        def run(self, W, R, op):
            setter(W.node(R["n"]), op["v"])

        def spec(self, pre, R, op, out):
            e = Exp()
            e.want(R["n"], FI, _with_field(pre.cells[R["n"]][FI], fidx, op["v"]))
            return e
    return FieldOp


_field_op("set_content", F_CONTENT, lambda n, v: setattr(n, "content", v))
_field_op("set_tail", F_TAIL, lambda n, v: setattr(n, "tail", v))
_field_op("set_prefix", F_PREFIX, lambda n, v: setattr(n, "prefix", v))
_field_op("set_name", F_NAME, lambda n, v: setattr(n, "name", v))


def _dict_op(name, fidx, setter, via_item):
    @kind(name)
    class DictOp:
        def gen(self, g):
            h = g.any_node()
            return {"k": name, "s": g.sess, "n": g.sel("own", h),
                    "key": g.attr_key(), "v": g.text()}

        def resolve(self, V, op):
            return {"n": V.pick("own", op["s"], op["n"])}

        def run(self, W, R, op):
            setter(W.node(R["n"]), op["key"], op["v"])

        def spec(self, pre, R, op, out):
            e = Exp()
            f = pre.cells[R["n"]][FI]
            if f[fidx] and f[fidx][0] == "notdict":
                e.judged = False
                return e
            e.want(R["n"], FI, _with_field(f, fidx, _dict_set(f[fidx], op["key"], op["v"])))
            return e
    return DictOp


_dict_op("add_attr", F_ATTRS, lambda n, k, v: n.add_attribute(k, v), False)
_dict_op("attr_item", F_ATTRS, lambda n, k, v: n.attributes.__setitem__(k, v), True)
_dict_op("add_extras", F_EXTRAS, lambda n, k, v: n.add_extras(k, v), False)
_dict_op("extras_item", F_EXTRAS, lambda n, k, v: n.extras.__setitem__(k, v), True)


@kind("nsmap_item")
class NsmapItem:
    """n.nsmap[prefix] = uri through the property's dictionary.  Used by the copy
    profile only: which other nodes of the same tree share the dictionary is the
    library's memory optimisation, but the counterpart of a copy never may."""

    def gen(self, g):
        h = g.any_node()
        return {"k": "nsmap_item", "s": g.sess, "n": g.sel("own", h), "p": g.prefix(), "u": g.uri()}

    def resolve(self, V, op):
        return {"n": V.pick("own", op["s"], op["n"])}

    def run(self, W, R, op):
        W.node(R["n"]).nsmap[op["p"]] = op["u"]

    def spec(self, pre, R, op, out):
        e = Exp()
        ns = pre.cells[R["n"]][NS]
        if ns and ns[0] in ("notdict", "unsortable"):
            e.adopt(R["n"], NS)
        else:
            e.want(R["n"], NS, _ns_set(ns, op["p"], op["u"]))
        return e


@kind("rm_attr")
class RmAttr:
    def gen(self, g):
        c = [h for h in g.V.cands("own", g.sess) if g.snap.cells[h][FI][F_ATTRS]]
        if not c:
            return None
        h = g.rng.choice(c)
        keys = [k for k, _ in g.snap.cells[h][FI][F_ATTRS]]
        return {"k": "rm_attr", "s": g.sess, "n": g.sel("own", h), "key": g.rng.choice(keys)}

    def resolve(self, V, op):
        h = V.pick("own", op["s"], op["n"])
        if op["key"] not in dict(V.s.cells[h][FI][F_ATTRS]):
            raise Skip("no such attribute")
        return {"n": h}

    def run(self, W, R, op):
        W.node(R["n"]).remove_attribute(op["key"])

    def spec(self, pre, R, op, out):
        e = Exp()
        f = pre.cells[R["n"]][FI]
        e.want(R["n"], FI, _with_field(f, F_ATTRS, tuple(kv for kv in f[F_ATTRS] if kv[0] != op["key"])))
        return e


# ---------------------------------------------------------------- edits
def merged_ns(parent_ns, child_ns):
    """What attach must make visible in the child: parent's prefixes that the
    child lacks; the child's own bindings win."""
    d = dict(child_ns)
    gained = []
    for k, v in parent_ns:
        if k not in d:
            d[k] = v
            gained.append(k)
    return tuple(sorted(d.items(), key=repr)), gained


class _DescNs:
    """Predicate for a proper descendant of an attached child: bindings for
    prefixes the child did not gain are unchanged. A gained prefix must be
    visible on the descendant as well (attach establishes "a node's prefixes
    include its parent's" for the whole tree, which is what C06 quantifies
    over, and the child that gained it is the descendant's ancestor); which URI
    it is bound to is left open between the one pushed down from the new parent
    and a binding the descendant had of its own (the statement says "own
    bindings win" of the child only)."""

    def __init__(self, before, gained, parent_ns=()):
        self.before = dict(before)
        self.gained = set(gained)
        self.parent = dict(parent_ns)

    def __call__(self, got):
        if got and got[0] in ("notdict", "unsortable"):
            return False
        g = dict(got)
        for k in set(g) | set(self.before) | self.gained:
            if k in self.gained:
                if k not in g:
                    return False
                if g[k] != self.parent.get(k, _MISSING) and g[k] != self.before.get(k, _MISSING):
                    return False
                continue
            if g.get(k, _MISSING) != self.before.get(k, _MISSING):
                return False
        return True

    def __repr__(self):
        return "unchanged-except-gained(%r, gained=%r from %r)" % (
            sorted(self.before.items(), key=repr), sorted(self.gained, key=repr),
            sorted(self.parent.items(), key=repr))


_MISSING = ("<missing>",)


def attachable(pre, p, c):
    """One parent at a time, no cycles: c is unlisted, is not p, and is not an
    ancestor of p."""
    if c == p or pre.is_listed(c):
        return False
    if c in pre.ancestors(p):
        return False
    return True


@kind("add_child")
class AddChild:
    def gen(self, g):
        s = g.snap
        unl = g.V.cands("unl", g.sess)
        own = g.V.cands("own", g.sess)
        if len(own) < 2 or not unl:
            return None
        for _ in range(6):
            c = g.rng.choice(unl)
            p = g.pick_parent(own)
            aff = g.cfg.get("plant_affinity")
            if aff and s.name(c) in aff and g.rng.random() < 0.7:
                # plant a name where the parent's rule lists it
                cands = [h for h in own if s.name(h) in aff[s.name(c)] and attachable(s, h, c)]
                if cands:
                    p = g.rng.choice(cands)
            if attachable(s, p, c):
                n = len(s.cells[p][CH])
                idx = None if g.rng.random() < 0.5 else g.rng.randrange(n + 1)
                op = {"k": "add_child", "s": g.sess, "p": g.sel("own", p), "c": g.sel("unl", c), "i": idx}
                if idx is not None and g.rng.random() < g.cfg.get("p_oob_index", 0.0):
                    op["i"] = g.rng.randrange(-2 * n - 3, 2 * n + 4)
                    op["raw"] = True
                return op
        return None

    def resolve(self, V, op):
        p = V.pick("own", op["s"], op["p"])
        c = V.pick("unl", op["s"], op["c"])
        if not struct_ok(V.s, p, c) or not attachable(V.s, p, c):
            raise Skip("not attachable")
        i = op["i"]
        if i is not None and not op.get("raw"):
            i = i % (len(V.s.cells[p][CH]) + 1)
        return {"p": p, "c": c, "i": i}

    def run(self, W, R, op):
        if R["i"] is None:
            W.node(R["p"]).add_child(W.node(R["c"]))
        else:
            W.node(R["p"]).add_child(W.node(R["c"]), R["i"])

    def spec(self, pre, R, op, out):
        e = Exp()
        p, c, i = R["p"], R["c"], R["i"]
        ch = list(pre.cells[p][CH])
        if i is None:
            ch.append(c)
        else:
            # the ordered-list model: Python's own list.insert, for any integer
            e.notes["oob"] = i < 0 or i > len(ch)
            ch.insert(i, c)
        e.want(p, CH, tuple(ch))
        e.want(c, PA, p)
        pns, cns = pre.cells[p][NS], pre.cells[c][NS]
        if (pns and pns[0] in ("notdict", "unsortable")) or (cns and cns[0] in ("notdict", "unsortable")):
            e.adopt(c, NS)
            for d in pre.subtree(c):
                e.adopt(d, NS)
            return e
        m, gained = merged_ns(pns, cns)
        e.want(c, NS, m)
        if gained:
            for d in pre.subtree(c)[1:]:
                e.want(d, NS, _DescNs(pre.cells[d][NS], gained, pns))
        e.notes["gained"] = gained
        return e


@kind("remove_child")
class RemoveChild:
    def gen(self, g):
        lst = g.V.cands("lst", g.sess)
        if not lst:
            return None
        return {"k": "remove_child", "s": g.sess, "c": g.sel("lst", g.rng.choice(lst))}

    def resolve(self, V, op):
        c = V.pick("lst", op["s"], op["c"])
        p = V.s.lister(c)
        if not struct_ok(V.s, p, c):
            raise Skip("struct")
        return {"p": p, "c": c}

    def run(self, W, R, op):
        W.node(R["p"]).remove_child(W.node(R["c"]))

    def spec(self, pre, R, op, out):
        e = Exp()
        ch = list(pre.cells[R["p"]][CH])
        ch.remove(R["c"])
        e.want(R["p"], CH, tuple(ch))
        e.adopt(R["c"], PA)
        return e


@kind("remove_children")
class RemoveChildren:
    def gen(self, g):
        par = g.V.cands("par", g.sess)
        if not par:
            return None
        return {"k": "remove_children", "s": g.sess, "p": g.sel("par", g.rng.choice(par))}

    def resolve(self, V, op):
        p = V.pick("par", op["s"], op["p"])
        if not struct_ok(V.s, p):
            raise Skip("struct")
        return {"p": p}

    def run(self, W, R, op):
        W.node(R["p"]).remove_children()

    def spec(self, pre, R, op, out):
        e = Exp()
        e.want(R["p"], CH, ())
        for c in pre.cells[R["p"]][CH]:
            if isinstance(c, int):
                e.adopt(c, PA)
        return e


@kind("replace_child")
class ReplaceChild:
    def gen(self, g):
        s = g.snap
        lst = g.V.cands("lst", g.sess)
        unl = g.V.cands("unl", g.sess)
        g.rng.shuffle(lst := list(lst))
        for old in lst[:8]:
            p = s.lister(old)
            nm = s.name(old)
            c = [u for u in unl if s.name(u) == nm and attachable(s, p, u) and u != old]
            if c:
                new = g.rng.choice(c)
                return {"k": "replace_child", "s": g.sess, "old": g.sel("lst", old),
                        "new": g.sel("unl", new), "del": g.rng.random() < g.cfg["p_delete_old"]}
        return None

    def resolve(self, V, op):
        s = V.s
        old = V.pick("lst", op["s"], op["old"])
        new = V.pick("unl", op["s"], op["new"])
        p = s.lister(old)
        if not struct_ok(s, p, old, new):
            raise Skip("struct")
        if s.name(old) != s.name(new) or not attachable(s, p, new) or new == old:
            raise Skip("precondition")
        if len(s.listers[old]) != 1 or s.cells[p][CH].count(old) != 1:
            raise Skip("double listing")
        return {"p": p, "old": old, "new": new}

    def run(self, W, R, op):
        W.node(R["p"]).replace_child(W.node(R["old"]), W.node(R["new"]), delete_old=op["del"])

    def spec(self, pre, R, op, out):
        e = Exp()
        p, old, new = R["p"], R["old"], R["new"]
        ch = list(pre.cells[p][CH])
        ch[ch.index(old)] = new
        e.want(p, CH, tuple(ch))
        e.want(new, PA, p)
        e.adopt(old, PA)
        if op["del"]:
            # replace with deletion discards the old subtree: none of it stays registered
            for d in pre.subtree(old):
                e.want(d, RG, False)
            e.notes["old_unregistered"] = not pre.cells[old][RG]
        # replace does not merge namespaces; the statement on attach speaks of
        # add_child, so the new subtree's bindings are not judged here
        return e


def model_shift(children, names, c, right, sib):
    i = children.index(c)
    j = None
    if right:
        if sib:
            for k in range(i + 1, len(children)):
                if names[k] == names[i]:
                    j = k
                    break
        elif i + 1 < len(children):
            j = i + 1
    else:
        if sib:
            for k in range(i - 1, -1, -1):
                if names[k] == names[i]:
                    j = k
                    break
        elif i > 0:
            j = i - 1
    ch = list(children)
    if j is None:
        return tuple(ch), i, True
    ch[i], ch[j] = ch[j], ch[i]
    return tuple(ch), j, False


@kind("shift")
class ShiftOp:
    def gen(self, g):
        lst = g.V.cands("lst", g.sess)
        if not lst:
            return None
        c = g.rng.choice(lst)
        right = g.rng.random() < 0.5
        if g.rng.random() < 0.3:
            # aim at an edge: the last child to the right, the first to the left
            ch = [x for x in g.snap.cells[g.snap.lister(c)][CH] if isinstance(x, int)]
            if ch and ch[-1 if right else 0] in lst:
                c = ch[-1 if right else 0]
        return {"k": "shift", "s": g.sess, "c": g.sel("lst", c),
                "right": right, "sib": g.rng.random() < 0.5}

    def resolve(self, V, op):
        s = V.s
        c = V.pick("lst", op["s"], op["c"])
        p = s.lister(c)
        if not struct_ok(s, p, c) or s.cells[p][CH].count(c) != 1:
            raise Skip("struct")
        if any(not isinstance(x, int) for x in s.cells[p][CH]):
            raise Skip("struct")
        return {"p": p, "c": c}

    def run(self, W, R, op):
        d = Shift.RIGHT if op["right"] else Shift.LEFT
        return W.node(R["p"]).shift(W.node(R["c"]), d, op["sib"])

    def model(self, pre, R, op):
        ch = pre.cells[R["p"]][CH]
        names = [pre.name(x) for x in ch]
        return model_shift(ch, names, R["c"], op["right"], op["sib"])

    def spec(self, pre, R, op, out):
        e = Exp()
        ch, idx, edge = self.model(pre, R, op)
        e.want(R["p"], CH, ch)
        e.notes["index"] = idx
        e.notes["edge"] = edge
        return e


# ---- failing edits: the defined outcome is failure, the tree must not move
@kind("x_remove_nonchild")
class XRemoveNonChild:
    def gen(self, g):
        own = g.V.cands("own", g.sess)
        if len(own) < 2:
            return None
        for _ in range(6):
            p, c = g.rng.choice(own), g.rng.choice(own)
            if c not in g.snap.cells[p][CH]:
                return {"k": "x_remove_nonchild", "s": g.sess, "p": g.sel("own", p), "c": g.sel("own", c)}
        return None

    def resolve(self, V, op):
        p = V.pick("own", op["s"], op["p"])
        c = V.pick("own", op["s"], op["c"])
        if not struct_ok(V.s, p) or c in V.s.cells[p][CH]:
            raise Skip("is a child")
        return {"p": p, "c": c}

    def run(self, W, R, op):
        W.node(R["p"]).remove_child(W.node(R["c"]))

    def spec(self, pre, R, op, out):
        return Exp()


@kind("x_replace_mismatch")
class XReplaceMismatch:
    def gen(self, g):
        s = g.snap
        lst, unl = g.V.cands("lst", g.sess), g.V.cands("unl", g.sess)
        if not lst or not unl:
            return None
        for _ in range(6):
            old, new = g.rng.choice(lst), g.rng.choice(unl)
            if s.name(old) != s.name(new) and attachable(s, s.lister(old), new):
                return {"k": "x_replace_mismatch", "s": g.sess, "old": g.sel("lst", old),
                        "new": g.sel("unl", new), "del": g.rng.random() < 0.5}
        return None

    def resolve(self, V, op):
        s = V.s
        old = V.pick("lst", op["s"], op["old"])
        new = V.pick("unl", op["s"], op["new"])
        p = s.lister(old)
        if not struct_ok(s, p, old, new) or s.name(old) == s.name(new) or not attachable(s, p, new):
            raise Skip("precondition")
        return {"p": p, "old": old, "new": new}

    def run(self, W, R, op):
        W.node(R["p"]).replace_child(W.node(R["old"]), W.node(R["new"]), delete_old=op["del"])

    def spec(self, pre, R, op, out):
        e = Exp()
        e.adopt(R["new"], PA)   # detached operand: its link is unspecified
        return e


@kind("x_replace_nonchild")
class XReplaceNonChild:
    def gen(self, g):
        s = g.snap
        own, unl = g.V.cands("own", g.sess), g.V.cands("unl", g.sess)
        if len(own) < 3 or not unl:
            return None
        for _ in range(8):
            p, old, new = g.rng.choice(own), g.rng.choice(own), g.rng.choice(unl)
            if (old not in s.cells[p][CH] and old != new and s.name(old) == s.name(new)
                    and attachable(s, p, new)):
                return {"k": "x_replace_nonchild", "s": g.sess, "p": g.sel("own", p),
                        "old": g.sel("own", old), "new": g.sel("unl", new),
                        "del": g.rng.random() < 0.5}
        return None

    def resolve(self, V, op):
        s = V.s
        p = V.pick("own", op["s"], op["p"])
        old = V.pick("own", op["s"], op["old"])
        new = V.pick("unl", op["s"], op["new"])
        if (not struct_ok(s, p, old, new) or old in s.cells[p][CH] or old == new
                or s.name(old) != s.name(new) or not attachable(s, p, new)):
            raise Skip("precondition")
        return {"p": p, "old": old, "new": new}

    def run(self, W, R, op):
        W.node(R["p"]).replace_child(W.node(R["old"]), W.node(R["new"]), delete_old=op["del"])

    def spec(self, pre, R, op, out):
        e = Exp()
        e.adopt(R["new"], PA)
        # a failed replace discards nothing: every registration stays (frame), also that of the
        # node that was wrongly named as the old child and is alive somewhere else
        return e


@kind("x_shift_nonmember")
class XShiftNonMember:
    def gen(self, g):
        own = g.V.cands("own", g.sess)
        if len(own) < 2:
            return None
        for _ in range(6):
            p, c = g.rng.choice(own), g.rng.choice(own)
            if c not in g.snap.cells[p][CH]:
                return {"k": "x_shift_nonmember", "s": g.sess, "p": g.sel("own", p), "c": g.sel("own", c),
                        "right": g.rng.random() < 0.5, "sib": g.rng.random() < 0.5}
        return None

    def resolve(self, V, op):
        p = V.pick("own", op["s"], op["p"])
        c = V.pick("own", op["s"], op["c"])
        if not struct_ok(V.s, p) or c in V.s.cells[p][CH]:
            raise Skip("is a member")
        return {"p": p, "c": c}

    def run(self, W, R, op):
        d = Shift.RIGHT if op["right"] else Shift.LEFT
        return W.node(R["p"]).shift(W.node(R["c"]), d, op["sib"])

    def spec(self, pre, R, op, out):
        return Exp()


@kind("x_shift_baddir")
class XShiftBadDir:
    def gen(self, g):
        lst = g.V.cands("lst", g.sess)
        if not lst:
            return None
        return {"k": "x_shift_baddir", "s": g.sess, "c": g.sel("lst", g.rng.choice(lst)),
                "d": g.rng.choice([None, 2, "RIGHT"]), "sib": g.rng.random() < 0.5}

    def resolve(self, V, op):
        c = V.pick("lst", op["s"], op["c"])
        p = V.s.lister(c)
        if not struct_ok(V.s, p, c):
            raise Skip("struct")
        return {"p": p, "c": c}

    def run(self, W, R, op):
        return W.node(R["p"]).shift(W.node(R["c"]), op["d"], op["sib"])

    def spec(self, pre, R, op, out):
        return Exp()


# ---------------------------------------------------------------- queries
def m_find_child(pre, n, name):
    for c in pre.cells[n][CH]:
        if pre.name(c) == name:
            return c
    return None


def m_find_all_children(pre, n, name):
    return [c for c in pre.cells[n][CH] if pre.name(c) == name]


def m_descendants(pre, n, name):
    return [d for d in pre.subtree(n)[1:] if pre.name(d) == name]


def m_path_all(pre, n, path):
    if not path:
        return []
    cur = [n]
    for nm in path:
        nxt = []
        for x in cur:
            nxt.extend(m_find_all_children(pre, x, nm))
        cur = nxt
        if not cur:
            return []
    return cur


def m_path_greedy(pre, n, path):
    if not path:
        return None
    cur = n
    for nm in path:
        if cur is None:
            return None
        cur = m_find_child(pre, cur, nm)
    return cur


def clean_subtree(pre, n):
    """The subtree below n is an ordered tree in the model's sense (every
    node listed once, all entries are nodes)."""
    seen = set()
    stack = [n]
    while stack:
        x = stack.pop()
        if x in seen:
            return False
        seen.add(x)
        c = pre.cells[x]
        if c is None or not isinstance(c[CH], tuple):
            return False
        for k in c[CH]:
            if not isinstance(k, int):
                return False
            if len(pre.listers.get(k, ())) != 1:
                return False
            stack.append(k)
    return True


@kind("query", mutating=False, readonly=True)
class Query:
    Q = ["find_child", "find_all_children", "find_descendant", "find_all_descendants",
         "path_single", "path_all", "ancestry", "child_index", "get_instance"]

    def gen(self, g):
        s = g.snap
        own = g.V.cands("own", g.sess)
        if not own:
            return None
        q = g.rng.choice(self.Q)
        n = g.pick_parent(own) if q not in ("ancestry", "get_instance") else g.rng.choice(own)
        lt = getattr(g.w, "last_touch", None)
        if lt is not None and lt[0] == g.sess and lt[1] in own and lt[2] in own and g.rng.random() < 0.3:
            # look again at what was just edited (and at what was looked at before the edit)
            n = lt[1]
            q = g.rng.choice(["child_index", "child_index", "find_child", "find_all_children", "find_descendant",
                              "path_single", "ancestry"])
            if q == "ancestry":
                n = lt[2]
            if q == "child_index":
                ch = [c for c in s.cells[n][CH] if isinstance(c, int)]
                pick = lt[2] if (lt[2] in ch and g.rng.random() < 0.6) else (g.rng.choice(ch) if ch else lt[2])
                return {"k": "query", "s": g.sess, "q": q, "n": g.sel("own", n), "c": g.sel("own", pick)}
        op = {"k": "query", "s": g.sess, "q": q, "n": g.sel("own", n)}
        if q in ("find_child", "find_all_children", "find_descendant", "find_all_descendants"):
            op["name"] = g.name_below(n)
            if q == "find_all_descendants":
                op["prefill"] = g.rng.choice([0, 0, 1, 2])
        elif q in ("path_single", "path_all"):
            op["path"] = g.path_below(n)
        elif q == "child_index":
            ch = s.cells[n][CH]
            if ch and g.rng.random() < 0.8:
                op["c"] = g.sel("own", g.rng.choice([c for c in ch if isinstance(c, int)] or [n]))
            else:
                op["c"] = g.sel("own", g.rng.choice(own))
        return op

    def resolve(self, V, op):
        n = V.pick("own", op["s"], op["n"])
        R = {"n": n}
        if not clean_subtree(V.s, n):
            raise Skip("struct")
        if op["q"] == "child_index":
            R["c"] = V.pick("own", op["s"], op["c"])
        if op["q"] == "ancestry":
            s = V.s
            chain = [n] + s.ancestors(n)
            for x, up in zip(chain, chain[1:] + [None]):
                if len(s.listers.get(x, ())) > 1:
                    raise Skip("double")
                if s.cells[x][PA] != up:
                    raise Skip("parent chain not specified")
        return R

    def run(self, W, R, op):
        n = W.node(R["n"])
        q = op["q"]
        if q == "find_child":
            return n.find_child(op["name"])
        if q == "find_all_children":
            return n.find_all_children(op["name"])
        if q == "find_descendant":
            return n.find_descendant(op["name"])
        if q == "find_all_descendants":
            lst = ["pre%d" % i for i in range(op.get("prefill", 0))]
            n.find_all_descendants(op["name"], lst)
            return lst
        if q == "path_single":
            return n.find_single_node_by_path(list(op["path"]))
        if q == "path_all":
            return n.find_all_nodes_by_path(list(op["path"]))
        if q == "ancestry":
            return n.get_ancestry()
        if q == "child_index":
            return n.child_index(W.node(R["c"]))
        if q == "get_instance":
            return Node.get_node_instance(n.id)
        raise KeyError(q)

    def spec(self, pre, R, op, out):
        return Exp()

    def expected(self, pre, R, op):
        """Returns (kind, acceptable values) in handle terms."""
        n, q = R["n"], op["q"]
        if q == "find_child":
            return [m_find_child(pre, n, op["name"])]
        if q == "find_all_children":
            return [m_find_all_children(pre, n, op["name"])]
        if q == "find_descendant":
            d = m_descendants(pre, n, op["name"])
            return [d[0] if d else None]
        if q == "find_all_descendants":
            return [["pre%d" % i for i in range(op.get("prefill", 0))] + m_descendants(pre, n, op["name"])]
        if q == "path_all":
            return [m_path_all(pre, n, op["path"])]
        if q == "path_single":
            greedy = m_path_greedy(pre, n, op["path"])
            acc = [greedy]
            if greedy is None:
                al = m_path_all(pre, n, op["path"])
                if al:
                    acc.append(al[0])
            return acc
        if q == "ancestry":
            return [list(reversed(pre.ancestors(n))) + [n]]
        if q == "child_index":
            ch = pre.cells[n][CH]
            return [ch.index(R["c"]) if R["c"] in ch else None]
        if q == "get_instance":
            return [n if pre.cells[n][RG] else _MISSING]
        raise KeyError(q)


# ---------------------------------------------------------------- namespaces
@kind("add_ns")
class AddNs:
    def gen(self, g):
        h = g.ns_target()
        if h is None:
            return None
        return {"k": "add_ns", "s": g.sess, "n": g.sel("own", h), "p": g.prefix(), "u": g.uri()}

    def resolve(self, V, op):
        n = V.pick("own", op["s"], op["n"])
        if not clean_subtree(V.s, n):
            raise Skip("struct")
        return {"n": n}

    def run(self, W, R, op):
        W.node(R["n"]).add_namespace(op["p"], op["u"])

    def spec(self, pre, R, op, out):
        e = Exp()
        for m in pre.subtree(R["n"]):
            ns = pre.cells[m][NS]
            if ns and ns[0] in ("notdict", "unsortable"):
                e.adopt(m, NS)
            else:
                e.want(m, NS, _ns_set(ns, op["p"], op["u"]))
        return e


@kind("rm_ns")
class RmNs:
    def gen(self, g):
        h = g.ns_target()
        if h is None:
            return None
        return {"k": "rm_ns", "s": g.sess, "n": g.sel("own", h), "p": g.prefix()}

    def resolve(self, V, op):
        n = V.pick("own", op["s"], op["n"])
        if not clean_subtree(V.s, n):
            raise Skip("struct")
        return {"n": n}

    def run(self, W, R, op):
        W.node(R["n"]).remove_namespace(op["p"])

    def spec(self, pre, R, op, out):
        e = Exp()
        for m in pre.subtree(R["n"]):
            ns = pre.cells[m][NS]
            if ns and ns[0] in ("notdict", "unsortable"):
                e.adopt(m, NS)
            else:
                e.want(m, NS, _ns_del(ns, op["p"]))
        return e


@kind("set_nsmap")
class SetNsmap:
    def gen(self, g):
        h = g.ns_target()
        if h is None:
            return None
        m = {}
        for _ in range(g.rng.randrange(0, 3)):
            m[g.prefix()] = g.uri()
        return {"k": "set_nsmap", "s": g.sess, "n": g.sel("own", h), "map": m,
                "children": g.rng.random() < g.cfg["p_setns_children"]}

    def resolve(self, V, op):
        n = V.pick("own", op["s"], op["n"])
        if not clean_subtree(V.s, n):
            raise Skip("struct")
        return {"n": n}

    def run(self, W, R, op):
        W.node(R["n"]).set_nsmap(dict(op["map"]), op["children"])   # a fresh dict each time

    def spec(self, pre, R, op, out):
        e = Exp()
        tgt = pre.subtree(R["n"]) if op["children"] else [R["n"]]
        for m in tgt:
            e.want(m, NS, _ns_of(op["map"]))
        return e


@kind("fix_nsmap")
class FixNsmap:
    def gen(self, g):
        h = g.ns_target()
        if h is None:
            return None
        return {"k": "fix_nsmap", "s": g.sess, "n": g.sel("own", h)}

    def resolve(self, V, op):
        n = V.pick("own", op["s"], op["n"])
        if not clean_subtree(V.s, n):
            raise Skip("struct")
        return {"n": n}

    def run(self, W, R, op):
        Node.fix_nsmap(W.node(R["n"]))

    def spec(self, pre, R, op, out):
        e = Exp()
        for m in pre.subtree(R["n"]):
            e.adopt(m, NS)        # no stated semantics inside; only the frame outside is judged
        return e


# ---------------------------------------------------------------- lifecycle
@kind("copy")
class Copy:
    def gen(self, g):
        own = g.V.cands("own", g.sess)
        if not own:
            return None
        h = g.pick_parent(own)
        if len(g.snap.subtree(h)) > g.cfg["max_copy"]:
            return None
        return {"k": "copy", "s": g.sess, "n": g.sel("own", h)}

    def resolve(self, V, op):
        n = V.pick("own", op["s"], op["n"])
        if not clean_subtree(V.s, n):
            raise Skip("struct")
        return {"n": n}

    def run(self, W, R, op):
        c = W.node(R["n"]).copy()
        if isinstance(c, Node):
            W.handle(c, op["s"])
        return c

    def spec(self, pre, R, op, out):
        return Exp()


def acyclic_subtree(pre, n):
    """Weaker than clean_subtree: entries are nodes and nothing below n lists an
    ancestor of itself; a node listed by two parents is tolerated."""
    onpath = set()
    done = set()

    def walk(x):
        stack = [(x, 0)]
        while stack:
            y, i = stack.pop()
            c = pre.cells[y]
            if c is None or not isinstance(c[CH], tuple) or any(not isinstance(k, int) for k in c[CH]):
                return False
            if i == 0:
                if y in onpath:
                    return False
                if y in done:
                    continue
                onpath.add(y)
            if i < len(c[CH]):
                stack.append((y, i + 1))
                stack.append((c[CH][i], 0))
            else:
                onpath.discard(y)
                done.add(y)
        return True
    return walk(n)


@kind("delete")
class Delete:
    def gen(self, g):
        reg = g.V.cands("reg", g.sess)
        if not reg:
            return None
        h = g.rng.choice(reg)
        return {"k": "delete", "s": g.sess, "n": g.sel("reg", h),
                "children": g.rng.random() < g.cfg["p_delete_children"]}

    def resolve(self, V, op):
        n = V.pick("reg", op["s"], op["n"])
        if not acyclic_subtree(V.s, n):
            raise Skip("struct")
        return {"n": n}

    def run(self, W, R, op):
        Node.delete_node_instance(W.node(R["n"]).id, children=op["children"])

    def spec(self, pre, R, op, out):
        e = Exp()
        n = R["n"]
        if not pre.cells[n][RG]:
            e.judged = False
            return e
        tgt = pre.subtree(n) if op["children"] else [n]
        for d in tgt:
            e.want(d, RG, False)
        e.notes["partial"] = any(not pre.cells[d][RG] for d in tgt[1:])
        return e


@kind("raw_append")
class RawAppend:
    """p.children.append(c): the child list reached through the public property,
    as Node.copy itself does.  The parent link of c is not touched."""

    def gen(self, g):
        s = g.snap
        unl, own = g.V.cands("unl", g.sess), g.V.cands("own", g.sess)
        if len(own) < 2 or not unl:
            return None
        for _ in range(6):
            c, p = g.rng.choice(unl), g.pick_parent(own)
            if attachable(s, p, c):
                return {"k": "raw_append", "s": g.sess, "p": g.sel("own", p), "c": g.sel("unl", c)}
        return None

    def resolve(self, V, op):
        p = V.pick("own", op["s"], op["p"])
        c = V.pick("unl", op["s"], op["c"])
        if not struct_ok(V.s, p, c) or not attachable(V.s, p, c):
            raise Skip("not attachable")
        return {"p": p, "c": c}

    def run(self, W, R, op):
        W.node(R["p"]).children.append(W.node(R["c"]))

    def spec(self, pre, R, op, out):
        e = Exp()
        e.want(R["p"], CH, pre.cells[R["p"]][CH] + (R["c"],))
        return e


@kind("forget")
class Forget:
    """The client drops every reference of its own to one document and keeps only
    the ids; after a garbage collection each node must still be retrievable by
    its id, because nothing deleted it.  Afterwards the client holds the nodes again."""

    def gen(self, g):
        s = g.snap
        roots = [h for h in g.V.cands("unl", g.sess) if len(s.subtree(h)) <= 80]
        if not roots:
            return None
        return {"k": "forget", "s": g.sess, "n": g.sel("unl", g.rng.choice(roots))}

    def resolve(self, V, op):
        s = V.s
        n = V.pick("unl", op["s"], op["n"])
        if not clean_subtree(s, n):
            raise Skip("struct")
        sub = s.subtree(n)
        ids = [s.cells[h][FI][F_ID] for h in sub]
        if any(not s.cells[h][RG] for h in sub) or len(set(ids)) != len(ids):
            raise Skip("not all registered")
        for h in sub:
            pa = s.cells[h][PA]
            if pa is not None and pa not in sub:
                raise Skip("stale link to a node outside")     # would keep the other tree's reference alive only
        return {"n": n, "sub": sub}

    def run(self, W, R, op):
        import gc
        import weakref
        sub = R["sub"]
        ids = [W.nodes[h].id for h in sub]
        def ref(o):
            try:
                return weakref.ref(o)
            except TypeError:       # a node class without weak-reference support (__slots__)
                return lambda: None
        wrefs = [ref(W.nodes[h]) for h in sub]
        for h in sub:
            del W.h_of[id(W.nodes[h])]
            W.nodes[h] = None
        gc.collect()
        lost = []
        for h, i, wr in zip(sub, ids, wrefs):
            obj = Node.get_node_instance(i)
            alive = wr()
            if obj is None or (alive is not None and obj is not alive):
                lost.append(h)
                obj = alive
            if obj is not None:
                W.nodes[h] = obj
                W.h_of[id(obj)] = h
        return {"lost": lost, "size": len(sub)}

    def spec(self, pre, R, op, out):
        return Exp()


@kind("clk", mutating=False)
class Clk:
    EVS = [("tick", [0, 1, 99, 100, 10**3, 10**6, 10**9, 3600 * 10**9]),
           ("freeze", [1, 2, 5, 50]),
           ("coarse", [1, 100, 10**6, 15_600_000, 10**9]),
           ("back", [1, 100, 10**9, 86400 * 10**9, 20 * 365 * 86400 * 10**9]),
           ("fwd", [10**9, 86400 * 10**9, 20 * 365 * 86400 * 10**9])]

    def gen(self, g):
        ev, args = g.rng.choice(self.EVS)
        return {"k": "clk", "s": g.sess, "ev": ev, "arg": g.rng.choice(args)}

    def resolve(self, V, op):
        return {}

    def run(self, W, R, op):
        W.clock.event(op["ev"], op["arg"])

    def spec(self, pre, R, op, out):
        return Exp()


class Quiet:
    """Swallows what graph() prints."""

    def __enter__(self):
        self._o = sys.stdout
        sys.stdout = io.StringIO()
        return self

    def __exit__(self, *a):
        sys.stdout = self._o
        return False
