"""Hand-written EML fragments as literal specs [name, attrs, content, children],
composed under a seeded PRNG.  The specs travel inside the operation, so a
replay file needs no generator."""

UNKNOWN_NAMES = ["bogus", "Title", "x-data", "acknowledgements", "software", "protocol", "studyAreaDescription"]
KNOWN_FOR_MISPLACING = ["title", "creator", "surName", "para", "role", "references", "metadata",
                        "keyword", "individualName", "dataset", "value", "contact", "access"]
TEXTS = ["Green sea turtle counts", "a < b & c", "x", "one two three four five six", "été \U0001F600",
         "&amp; already", "<para>inline</para>", " padded ", "0.0", "2017"]


def N(name, attrs=None, content=None, children=None):
    return [name, dict(attrs or {}), content, list(children or [])]


def individual(rng, k=0):
    ch = []
    if rng.random() < 0.4:
        ch.append(N("salutation", None, rng.choice(["Mr.", "Dr."])))
    for _ in range(rng.choice([0, 1, 1, 2])):
        ch.append(N("givenName", None, rng.choice(["Chase", "Ana", "Li"])))
    sur = N("surName", None, "Gaucho%d" % k)
    if rng.random() < 0.15:
        sur[3].append(N("value", {"lang": "en"}, "Gaucho"))
    ch.append(sur)
    return N("individualName", None, None, ch)


def party_children(rng, k=0, rich=None):
    """Children of a responsible party in schema order."""
    rich = rng.random() < 0.5 if rich is None else rich
    ch = []
    r = rng.random()
    if r < 0.6:
        ch.append(individual(rng, k))
        if rng.random() < 0.3:
            ch.append(N("organizationName", None, "EDI"))
    elif r < 0.85:
        ch.append(N("organizationName", None, "EDI %d" % k))
    else:
        ch.append(N("positionName", None, "Manager"))
    if rich:
        if rng.random() < 0.5:
            ch.append(N("address", None, None, [N("deliveryPoint", None, "100 Maple St"), N("city", None, "Gotham"),
                                                 N("country", None, "USA")]))
        if rng.random() < 0.5:
            ch.append(N("phone", {"phonetype": "voice"}, "555-555-5555"))
        if rng.random() < 0.6:
            ch.append(N("electronicMailAddress", None, "cg%d@somecollege.edu" % k))
        if rng.random() < 0.3:
            ch.append(N("onlineUrl", None, "https://www.somecollege.edu/people/cg"))
        if rng.random() < 0.4:
            ch.append(N("userId", {"directory": "https://orcid.org"}, "0000-0001-%04d" % k))
    return ch


def party(rng, name, k=0, pid=None, ref=None, roles=None):
    attrs = {}
    if pid is not None:
        attrs["id"] = pid
        if rng.random() < 0.3:
            attrs["scope"] = "document"
    if ref is not None:
        ch = [N("references", None, ref)]
    else:
        ch = party_children(rng, k)
    if name in ("associatedParty", "personnel"):
        for r in (roles or ["author"]):
            ch.append(N("role", None, r))
    return N(name, attrs, None, ch)


def access():
    return N("access", {"authSystem": "pasta", "order": "allowFirst"}, None, [
        N("allow", None, None, [N("principal", None, "uid=gaucho,o=EDI"), N("permission", None, "all")]),
        N("deny", None, None, [N("principal", None, "public"), N("permission", None, "write")])])


def abstract(rng):
    r = rng.random()
    if r < 0.3:
        return N("abstract", None, rng.choice(TEXTS))
    paras = [N("para", None, rng.choice(TEXTS)) for _ in range(rng.choice([1, 2, 3]))]
    if r < 0.5:
        paras.append(N("para", None, None, [N("emphasis", None, "inline only")]))
    return N("abstract", None, None, paras)


def foreign(rng, depth=0):
    """Arbitrary non-EML content for below additionalMetadata/metadata."""
    ch = []
    if depth < 2:
        for _ in range(rng.choice([0, 1, 2])):
            ch.append(foreign(rng, depth + 1))
    return N(rng.choice(["unitList", "bogus", "title", "creator", "x"]), {"any": "thing"} if rng.random() < 0.3 else None,
             rng.choice([None, "free text", "a<b"]), ch)


def dataset_doc(rng, refs=None, small=None):
    """A valid EML document.  refs (optional) describes reference structure:
    {"referenced": [(element, id)], "referencing": [(element, ref value, roles)], "extra_ids": [...]}"""
    small = rng.random() < 0.5 if small is None else small
    ds = []
    if not small and rng.random() < 0.3:
        ds.append(N("alternateIdentifier", None, "doi:10/x"))
    for _ in range(rng.choice([1, 1, 2])):
        ds.append(N("title", None, rng.choice(TEXTS[:6])))
    k = [0]

    def nk():
        k[0] += 1
        return k[0]
    groups = {"creator": [], "metadataProvider": [], "associatedParty": [], "contact": [], "publisher": [],
              "personnel": []}
    if refs:
        for el, pid in refs.get("referenced", []):
            groups[el].append(party(rng, el, nk(), pid=pid, roles=rng.choice([["author"], ["pi", "editor"]])))
        for el, val, roles, order in refs.get("referencing", []):
            p = party(rng, el, nk(), ref=val, roles=roles)
            if order == "first":
                groups[el].insert(0, p)
            else:
                groups[el].append(p)
    if not groups["creator"]:
        groups["creator"].append(party(rng, "creator", nk()))
    if not groups["contact"]:
        groups["contact"].append(party(rng, "contact", nk()))
    if not small:
        for el, n in (("creator", rng.choice([0, 1])), ("metadataProvider", rng.choice([0, 1])),
                      ("associatedParty", rng.choice([0, 1, 2]))):
            for _ in range(n):
                groups[el].append(party(rng, el, nk(), roles=["editor"]))
    ds += groups["creator"] + groups["metadataProvider"] + groups["associatedParty"]
    if not small and rng.random() < 0.5:
        ds.append(N("pubDate", None, rng.choice(["2017", "2017-05-01"])))
    if rng.random() < (0.3 if small else 0.7):
        ds.append(abstract(rng))
    if not small and rng.random() < 0.5:
        ds.append(N("keywordSet", None, None, [N("keyword", {"keywordType": "theme"} if rng.random() < 0.5 else None, w)
                                                  for w in ["turtle", "count", "sea"][:rng.choice([1, 2, 3])]]))
    ds += groups["contact"]
    ds += groups["publisher"][:1]
    if groups["personnel"] or (not small and rng.random() < 0.4):
        pers = groups["personnel"] or [party(rng, "personnel", nk(), roles=["pi"])]
        ds.append(N("project", None, None, [N("title", None, "Project T")] + pers))
    dattrs = {}
    if refs and refs.get("dataset_id"):
        dattrs["id"] = refs["dataset_id"]
    root = [N("dataset", dattrs, None, ds)]
    if rng.random() < (0.2 if small else 0.5):
        root.insert(0, access())
    for _ in range(0 if small else rng.choice([0, 0, 1, 2])):
        root.append(N("additionalMetadata", None, None, [N("metadata", None, None, [foreign(rng)])]))
    return N("eml", {"packageId": "edi.23.1", "system": "metapype"}, None, root)


def fragment(rng):
    """A subtree rooted at a known element (not a whole document)."""
    r = rng.random()
    if r < 0.3:
        return party(rng, rng.choice(["creator", "contact", "associatedParty"]), 1)
    if r < 0.5:
        return individual(rng, 1)
    if r < 0.7:
        return abstract(rng)
    if r < 0.85:
        return access()
    return N("additionalMetadata", None, None, [N("metadata", None, None, [foreign(rng)])])


RP = ["creator", "contact", "metadataProvider", "publisher"]
RPR = ["associatedParty", "personnel"]


def reference_plan(rng, fault=None):
    """Reference structure satisfying C16's precondition: every references
    value names exactly one id, the referenced element has the same rule as
    the referencing one and holds no references itself.  fault in (None,
    'dangling', 'empty', 'dup') places one fault at a random position."""
    nrefd = rng.choice([1, 1, 2, 3])
    referenced = []
    for j in range(nrefd):
        fam = RP if rng.random() < 0.6 else RPR
        el = rng.choice([e for e in fam if e != "publisher"] if fam is RP else fam)
        referenced.append((el, "id%d" % j))
    m = rng.choice([0, 1, 1, 2, 3, 4, 6])
    referencing = []
    have_pub = False
    for _ in range(m):
        tel, tid = rng.choice(referenced)
        fam = RP if tel in RP else RPR
        el = rng.choice(fam)
        if el == "publisher":
            if have_pub:
                el = "contact"
            have_pub = True
        roles = None
        if fam is RPR:
            roles = rng.choice([["author"], ["pi"], ["editor", "reviewer"]])
        referencing.append([el, tid, roles, rng.choice(["first", "last"])])
    plan = {"referenced": referenced, "referencing": referencing, "fault": fault}
    if rng.random() < 0.4:
        plan["dataset_id"] = "ds1"
    if fault == "dangling":
        pos = rng.randrange(len(referencing) + 1)
        el = rng.choice(["contact", "creator", "associatedParty"])
        referencing.insert(pos, [el, "nosuch", ["author"] if el in RPR else None, rng.choice(["first", "last"])])
    elif fault == "empty":
        pos = rng.randrange(len(referencing) + 1)
        referencing.insert(pos, ["contact", None, None, rng.choice(["first", "last"])])
    elif fault == "dup":
        r = rng.random()
        if r < 0.4 and referenced:
            # a second element carrying an id that is referenced
            el, tid = rng.choice(referenced)
            referenced.insert(rng.randrange(len(referenced) + 1), (rng.choice(RP[:3]), tid))
        elif r < 0.7:
            # two unreferenced elements with the same id
            referenced.append(("creator", "dupx"))
            referenced.append((rng.choice(["contact", "metadataProvider"]), "dupx"))
        else:
            plan["dataset_id"] = referenced[0][1]
    return plan
