"""Operations above the node API: EML seed documents, XML import, crash and
restart over the durable JSON, prune, reference expansion, and the read-only
surface."""
import json
import os

from . import bootstrap as B
from . import emlseeds as E
from . import rulesview as RV
from .ops import kind, Exp, Skip, KINDS, Quiet, clean_subtree, struct_ok
from .world import CH, PA, NS, FI, RG, F_ID, F_NAME, F_CONTENT, F_ATTRS

Node = B.Node
mio, mpio = B.metapype_io, B.mp_io
validate, references, export, evaluate, rule = B.validate, B.references, B.export, B.evaluate, B.rule

_CORPUS = {}


def _valid(n):
    try:
        validate.tree(n)
        return True, None
    except Exception as e:      # noqa: BLE001
        return False, e


def corpus(name):
    if name not in _CORPUS:
        with open(os.path.join(B.VERIF, "corpus", name), "r", encoding="utf-8") as f:
            _CORPUS[name] = f.read()
    return _CORPUS[name]


def build(spec):
    n = Node(spec[0]) if spec[2] is None else Node(spec[0], content=spec[2])
    for k, v in spec[1].items():
        n.add_attribute(k, v)
    for c in spec[3]:
        n.add_child(build(c))
    return n


def spec_size(spec):
    return 1 + sum(spec_size(c) for c in spec[3])


@kind("eml_seed")
class EmlSeed:
    def gen(self, g):
        rng = g.rng
        if len(g.V.cands("own", g.sess)) > g.cfg.get("eml_universe", 400):
            return None
        mode = g.cfg.get("seed_mode", "mixed")
        if mode == "refs":
            fault = None
            if g.cfg["faults"] and rng.random() < 0.5:
                fault = rng.choice(["dangling", "dangling", "empty", "dup", "dup"])
            plan = E.reference_plan(rng, fault)
            spec = E.dataset_doc(rng, plan, small=rng.random() < 0.7)
            return {"k": "eml_seed", "s": g.sess, "spec": spec, "fault": fault}
        r = rng.random()
        if mode in ("mixed", "fragment") and rng.random() < g.cfg.get("p_rule_seed", 0.35):
            # any element of the rule table, built by walking its rule (all 107 rules get visited)
            spec = RV.safe_gen_tree(rng, RV.random_element(rng), [rng.choice([8, 25, 60])])
            return {"k": "eml_seed", "s": g.sess, "spec": spec, "via": "rule"}
        if mode == "fragment" or (mode == "mixed" and r < 0.35):
            spec = E.fragment(rng)
        elif r < 0.55:
            spec = E.dataset_doc(rng, E.reference_plan(rng))
        else:
            spec = E.dataset_doc(rng)
        return {"k": "eml_seed", "s": g.sess, "spec": spec}

    def resolve(self, V, op):
        return {}

    def run(self, W, R, op):
        n = build(op["spec"])
        W.handle(n, op["s"])
        return n

    def spec(self, pre, R, op, out):
        return Exp()


@kind("import_xml")
class ImportXml:
    def gen(self, g):
        rng = g.rng
        r = rng.random()
        own = g.V.cands("unl", g.sess)
        if len(g.V.cands("own", g.sess)) > g.cfg.get("eml_universe", 400):
            return None
        op = {"k": "import_xml", "s": g.sess, "clean": rng.random() < 0.7, "collapse": rng.random() < 0.3}
        if rng.random() < 0.2:
            op["legacy"] = True        # the older importer, mp_io.from_xml
        if r < 0.5 and own:
            h = rng.choice(own)
            if len(g.snap.subtree(h)) > 300:
                return None
            op["src"] = "export"
            op["n"] = g.sel("unl", h)
        elif r < 0.62 and ((len(g.V.cands("own", g.sess)) < 60 and not g.w.corpus_loaded) or g.cfg.get("big_world")):
            g.w.corpus_loaded = True
            op["src"] = "corpus"
            op["doc"] = "eml.xml"
        else:
            op["src"] = "literal"
            op["xml"] = rng.choice([
                '<a xmlns:p="u:1"><p:b k="v" p:q="w">t<c/>tail</b-x>'.replace("</b-x>", "</p:b>") + "</a>",
                '<eml:eml xmlns:eml="https://eml.ecoinformatics.org/eml-2.2.0" packageId="x" system="y"><dataset><title>T</title></dataset></eml:eml>',
                '<r><!-- c --><x xml:lang="en"> s </x><y xmlns:q="u:2"><q:z/></y></r>',
                '<root xmlns="u:d" xmlns:p="u:1"><a k="v"/><p:b><c xmlns="u:e">t</c></p:b></root>',
                '<a xmlns:p="u:1" xmlns:q="u:2"><b xmlns:q="u:2" xmlns:p="u:1"><p:c q:k="v"/></b></a>',
            ])
        return op

    def resolve(self, V, op):
        if op["src"] == "export":
            n = V.pick("unl", op["s"], op["n"])
            if not clean_subtree(V.s, n):
                raise Skip("struct")
            return {"n": n}
        return {}

    def run(self, W, R, op):
        if op["src"] == "export":
            xml = mio.to_xml(W.node(R["n"]))
        elif op["src"] == "corpus":
            xml = corpus(op["doc"])
        else:
            xml = op["xml"]
        if op.get("legacy"):
            n = mpio.from_xml(xml)
        else:
            n = mio.from_xml(xml, clean=op["clean"], collapse=op["collapse"])
        if isinstance(n, Node):
            W.handle(n, op["s"])
        return n

    def spec(self, pre, R, op, out):
        return Exp()


@kind("import_json")
class ImportJson:
    """Loads the repository's own JSON fixture (current codec, 286 nodes with prefixes,
    namespace maps and qualified attributes).  Its node ids are fixed, so it is loaded at
    most once per run: a second load while the first is alive would be id reuse."""

    def gen(self, g):
        if g.w.corpus_json_loaded or len(g.snap.cells) > 400 or not g.cfg.get("json_corpus"):
            return None
        g.w.corpus_json_loaded = True
        return {"k": "import_json", "s": g.sess, "doc": "eml.json"}

    def resolve(self, V, op):
        s = V.s
        # replaying a shrunk list must not load it twice either
        for h in s.alive():
            if s.cells[h][FI][F_ID] == "eb67136c-bd9a-11ec-b8d5-43d4b4b0ab4d":
                raise Skip("already loaded")
        return {}

    def run(self, W, R, op):
        n = mio.from_json(corpus(op["doc"]))
        if isinstance(n, Node):
            W.handle(n, op["s"])
        return n

    def spec(self, pre, R, op, out):
        return Exp()


@kind("json_twin")
class JsonTwin:
    """A working copy made the way the README suggests: from_json(to_json(doc)),
    while the original stays alive.  The twin carries the same node ids, so the
    registry now names the twin's nodes.  Used by the expand profile only (the
    registry profile excludes deliberate id reuse)."""

    def gen(self, g):
        s = g.snap
        docs = [h for h in g.V.cands("unl", g.sess) if 1 < len(s.subtree(h)) <= 200]
        if not docs or len(g.V.cands("own", g.sess)) > g.cfg.get("eml_universe", 400):
            return None
        withrefs = [h for h in docs if any(s.name(d) == "references" for d in s.subtree(h))]
        h = g.rng.choice(withrefs or docs)
        return {"k": "json_twin", "s": g.sess, "n": g.sel("unl", h)}

    def resolve(self, V, op):
        n = V.pick("unl", op["s"], op["n"])
        if not clean_subtree(V.s, n) or not prefix_inclusion(V.s, n):
            raise Skip("struct")
        return {"n": n}

    def run(self, W, R, op):
        twin = mio.from_json(mio.to_json(W.node(R["n"])))
        if isinstance(twin, Node):
            W.handle(twin, op["s"])
        return twin

    def spec(self, pre, R, op, out):
        e = Exp()
        for h in pre.subtree(R["n"]):
            e.adopt(h, RG)         # shadowed by the twin: registry semantics under id reuse are not stated
        return e


# ---------------------------------------------------------------- restart
def prefix_inclusion(pre, root):
    """C06's stated precondition on one document: every node's prefix set
    includes its parent's, namespace/attribute/extras values are strings."""
    for h in pre.subtree(root):
        c = pre.cells[h]
        ns = c[NS]
        if ns and ns[0] in ("notdict", "unsortable"):
            return False
        for k, v in ns:
            if not isinstance(k, str) or not isinstance(v, str):
                return False
        for fi in (5, 6):
            items = c[FI][fi]
            if items and items[0] == "notdict":
                return False
            for k, v in items:
                if not isinstance(k, str) or not isinstance(v, str):
                    return False
        f = c[FI]
        if not isinstance(f[F_NAME], str) or not isinstance(f[F_ID], str):
            return False
        for x in (f[2], f[3], f[4]):
            if x is not None and not isinstance(x, str):
                return False
        keys = set(k for k, _ in ns)
        for ch in c[CH]:
            if not isinstance(ch, int):
                return False
            cns = pre.cells[ch][NS]
            if cns and cns[0] in ("notdict", "unsortable"):
                return False
            if not keys <= set(k for k, _ in cns):
                return False
    return True


@kind("restart")
class Restart:
    """Crash and restart: every document is written to the durable store as
    text, every node object and the whole registry are lost, and the world is
    rebuilt from the stored text alone."""

    def gen(self, g):
        rng = g.rng
        mode = rng.choices(["json", "legacy", "upgrade"], g.cfg.get("restart_modes", [1, 0, 0]))[0]
        big = len(g.snap.cells) > 150
        return {"k": "restart", "s": g.sess, "mode": mode,
                "indent": None if big else rng.choice([None, None, None, None, 0, 2])}

    def resolve(self, V, op):
        s = V.s
        roots = [h for h in s.alive() if h not in s.listers]
        for r in roots:
            if not clean_subtree(s, r):
                raise Skip("struct")
        # ids must be unique across all documents (no deliberate id reuse on load)
        seen = set()
        for h in s.alive():
            i = s.cells[h][FI][F_ID]
            if i in seen:
                raise Skip("duplicate ids across documents")
            seen.add(i)
        return {"roots": roots}

    def run(self, W, R, op):
        mode, indent = op["mode"], op["indent"]
        saved = []
        for r in R["roots"]:
            n = W.node(r)
            try:
                text = mio.to_json(n, indent) if mode == "json" else mpio.to_json(n)
                err = None
            except Exception as e:      # noqa: BLE001
                text, err = None, e
            saved.append((r, W.owner[r], text, err))
        # ---- crash: nothing but `saved` survives
        W.drop_all()
        Node.store.clear()
        out = []
        for r, owner, text, err in saved:
            rec = {"old": r, "owner": owner, "text": text, "save_error": err, "new": None,
                   "load_error": None, "text2": None, "resave_error": None}
            out.append(rec)
            if text is None:
                continue
            try:
                if mode == "json":
                    n = mio.from_json(text)
                elif mode == "legacy":
                    n = mpio.from_json(json.loads(text))
                else:
                    model = json.loads(text)
                    B.to_20210209(model)
                    n = mio.from_json(json.dumps(model))
                    rec["legacy_twin"] = text
            except Exception as e:      # noqa: BLE001
                rec["load_error"] = e
                continue
            if isinstance(n, Node):
                rec["new"] = W.handle(n, owner)
                try:
                    rec["text2"] = mio.to_json(n, indent) if mode == "json" else mpio.to_json(n)
                except Exception as e:      # noqa: BLE001
                    rec["resave_error"] = e
            else:
                rec["load_error"] = TypeError("loader returned %r" % type(n).__name__)
        return out

    def spec(self, pre, R, op, out):
        e = Exp()
        e.judged = True
        return e


# ---------------------------------------------------------------- prune
def offenders(pre, root):
    """Model of non-strict pruning: the maximal nodes outside metadata content
    whose name is unknown or which their parent's rule does not list.
    Returns (list of offender handles in document order, set of kept handles)."""
    off = []
    kept = set()
    stack = [root]
    while stack:
        x = stack.pop()
        kept.add(x)
        nm = pre.name(x)
        if nm == "metadata":
            for d in pre.subtree(x)[1:]:
                kept.add(d)        # metadata content is opaque
            continue
        allowed = RV.allowed_children(nm)
        nxt = []
        for c in pre.cells[x][CH]:
            cn = pre.name(c)
            if not RV.known(cn) or allowed is None or cn not in allowed:
                off.append(c)
            else:
                nxt.append(c)
        stack.extend(reversed(nxt))
    return off, kept


@kind("prune")
class Prune:
    def gen(self, g):
        s = g.snap
        own = g.V.cands("own", g.sess)
        roots = [h for h in own if RV.known(s.name(h)) and RV.allowed_children(s.name(h)) is not None]
        if not roots:
            return None
        top = [h for h in roots if h not in s.listers]
        if top and g.rng.random() < 0.8:
            h = g.rng.choice(top)
        else:
            h = g.rng.choice(roots)
        strict = g.rng.random() < g.cfg.get("p_strict", 0.5)
        last = getattr(g.w, "last_prune", None)
        if last is not None and g.rng.random() < 0.5 and last[0] in own:
            h, strict = last           # prune again: the second time removes nothing
        g.w.last_prune = (h, strict)
        return {"k": "prune", "s": g.sess, "n": g.sel("own", h), "strict": strict}

    def resolve(self, V, op):
        n = V.pick("own", op["s"], op["n"])
        nm = V.s.name(n)
        if not RV.known(nm) or RV.allowed_children(nm) is None or not clean_subtree(V.s, n):
            raise Skip("not rooted at a known element")
        off, _ = offenders(V.s, n)
        return {"n": n, "off_parents": sorted(set(V.s.lister(o) for o in off))}

    def run(self, W, R, op):
        # reach probe (harness side, before the call): how many offenders sit under a
        # parent that is also invalid for a reason other than its children's names
        also = 0
        for par in R["off_parents"]:
            errs = []
            try:
                validate.node(W.node(par), errs)
            except Exception:       # noqa: BLE001
                continue
            if any(str(e[0]).split(".")[-1] not in ("CHILD_NOT_ALLOWED",) for e in errs):
                also += 1
        return {"pruned": validate.prune(W.node(R["n"]), op["strict"]), "parent_also": also}

    def spec(self, pre, R, op, out):
        # judged by the prune profile's own clause set; for the generic frame:
        e = Exp()
        n = R["n"]
        sub = pre.subtree(n)
        for h in sub:
            e.adopt(h, CH, PA, RG)
        e.notes["subtree"] = sub
        return e


@kind("expand")
class Expand:
    def gen(self, g):
        s = g.snap
        own = g.V.cands("unl", g.sess)
        docs = [h for h in own if s.cells[h][CH]]
        if not docs:
            return None
        withrefs = [h for h in docs if any(s.name(d) == "references" for d in s.subtree(h))]
        h = g.rng.choice(withrefs) if withrefs and g.rng.random() < 0.85 else g.rng.choice(docs)
        return {"k": "expand", "s": g.sess, "n": g.sel("unl", h)}

    def resolve(self, V, op):
        n = V.pick("unl", op["s"], op["n"])
        s = V.s
        if not clean_subtree(s, n):
            raise Skip("struct")
        # a reference placed inside the element it names makes expansion feed on
        # itself; no property speaks about it, and it only burns the watchdog
        sub = s.subtree(n)
        ids = {}
        for h in sub:
            for k, v in s.cells[h][FI][F_ATTRS]:
                if k == "id":
                    ids.setdefault(v, []).append(h)
        for h in sub:
            if s.name(h) == "references":
                for t in ids.get(s.cells[h][FI][F_CONTENT], ()):
                    if h in s.subtree(t):
                        raise Skip("self-containing reference")
        return {"n": n}

    def run(self, W, R, op):
        n = W.node(R["n"])
        vb, _ = _valid(n)
        references.expand(n)
        va, err = _valid(n)
        return {"valid_before": vb, "valid_after": va, "after_error": err}

    def spec(self, pre, R, op, out):
        e = Exp()
        for h in pre.subtree(R["n"]):
            e.adopt(h, CH, PA, RG)
        return e


# ---------------------------------------------------------------- read-only surface
def _abs(W, v, depth=0):
    if isinstance(v, Node):
        return ("node", W.h_of.get(id(v), -1))
    if isinstance(v, (list, tuple)):
        return tuple(_abs(W, x, depth + 1) for x in v)
    if isinstance(v, (str, int, float, bool)) or v is None:
        return v
    return ascii(v)


@kind("ro", mutating=False, readonly=True)
class Ro:
    TREE = ["validate_tree", "validate_tree_errs", "evaluate_tree", "to_json", "mp_to_json", "to_xml",
            "export_to_xml", "graph", "mp_graph"]
    NODE = ["validate_node", "validate_node_errs", "evaluate_node", "str", "repr", "is_allowed_child",
            "child_insert_index", "is_equal"]

    def gen(self, g):
        rng = g.rng
        own = g.V.cands("own", g.sess)
        if not own:
            return None
        memo = getattr(g.w, "ro_recent", None)
        if memo and rng.random() < 0.35:
            op = dict(rng.choice(memo))
            if rng.random() < 0.5:
                # ask an earlier question about the node that was looked at last
                same = [m for m in memo if m["n"] == memo[-1]["n"]]
                op = dict(rng.choice(same))
            if all(op[k] < len(own) for k in ("n", "m") if k in op):
                return op
        f = rng.choice(self.TREE + self.NODE)
        if f in self.TREE and rng.random() < 0.7:
            roots = g.V.cands("unl", g.sess)
            h = rng.choice(roots) if roots else rng.choice(own)
        else:
            h = rng.choice(own)
        if len(g.snap.subtree(h)) > 350:
            return None
        op = {"k": "ro", "s": g.sess, "f": f, "n": g.sel("own", h)}
        if f == "to_json":
            op["indent"] = rng.choice([None, 0, 2])
        elif f == "is_allowed_child":
            op["name"] = rng.choice(E.KNOWN_FOR_MISPLACING + E.UNKNOWN_NAMES)
        elif f in ("child_insert_index", "is_equal"):
            op["m"] = g.sel("own", rng.choice(own))
        if memo is None:
            memo = g.w.ro_recent = []
        memo.append(op)
        if len(memo) > 12:
            memo.pop(0)
        return op

    def resolve(self, V, op):
        n = V.pick("own", op["s"], op["n"])
        if not clean_subtree(V.s, n):
            raise Skip("struct")
        R = {"n": n}
        if "m" in op:
            R["m"] = V.pick("own", op["s"], op["m"])
            if not clean_subtree(V.s, R["m"]):
                raise Skip("struct")
        return R

    def run(self, W, R, op):
        n = W.node(R["n"])
        f = op["f"]
        if f == "validate_node":
            return validate.node(n)
        if f == "validate_node_errs":
            errs = []
            validate.node(n, errs)
            return errs
        if f == "validate_tree":
            return validate.tree(n)
        if f == "validate_tree_errs":
            errs = []
            validate.tree(n, errs)
            return errs
        if f == "evaluate_node":
            return evaluate.node(n)
        if f == "evaluate_tree":
            w = []
            evaluate.tree(n, w)
            return w
        if f == "to_json":
            return mio.to_json(n, op.get("indent"))
        if f == "mp_to_json":
            return mpio.to_json(n)
        if f == "to_xml":
            return mio.to_xml(n)
        if f == "export_to_xml":
            return export.to_xml(n)
        if f == "graph":
            return mio.graph(n)
        if f == "mp_graph":
            with Quiet() as q:
                mpio.graph(n, 0)
                import sys
                return sys.stdout.getvalue()
        if f == "str":
            return str(n)
        if f == "repr":
            return repr(n)
        if f == "is_allowed_child":
            return rule.get_rule(n.name).is_allowed_child(op["name"])
        if f == "child_insert_index":
            return rule.get_rule(n.name).child_insert_index(n, W.node(R["m"]))
        if f == "is_equal":
            return Node.is_equal(n, W.node(R["m"]))
        raise KeyError(f)

    def spec(self, pre, R, op, out):
        return Exp()


def ro_key(op, R):
    if op["k"] == "query":
        return ("query", op["q"], R["n"], R.get("c"), op.get("name"), tuple(op.get("path") or ()), op.get("prefill"))
    return ("ro", op["f"], R["n"], R.get("m"), op.get("indent"), op.get("name"))


def ro_answer(W, out):
    if out.ok:
        return ("ok", _abs(W, out.value))
    return ("raised", type(out.exc).__name__, ascii(out.exc)[:200])
