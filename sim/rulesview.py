"""The harness's own reading of the rule table: which names are known, which
children a name's rule lists.  Ten lines of flattening over rules.json and the
name -> rule map; the library's Rule class is not asked."""
import json
import os

from . import bootstrap as B

with open(os.path.join(B.SRC, "metapype", "eml", "rules.json"), "r", encoding="utf-8") as _f:
    RULES = json.load(_f)
MAP = dict(B.rule.node_mappings)


def _flatten(spec, out):
    if isinstance(spec, list) and spec:
        if isinstance(spec[0], str):
            out.add(spec[0])
        else:
            for x in spec:
                _flatten(x, out)


_ALLOWED = {}


def known(name):
    return name in MAP


def rule_of(name):
    return MAP.get(name)


def allowed_children(name):
    """Set of child names the rule of element `name` lists, or None if the
    name is unknown (or maps to a rule the table does not hold)."""
    if name not in _ALLOWED:
        r = RULES.get(MAP.get(name))
        if r is None:
            _ALLOWED[name] = None
        else:
            s = set()
            _flatten(r[1], s)
            _ALLOWED[name] = frozenset(s)
    return _ALLOWED[name]


def listed_but_unknown():
    """child name -> parent element names whose rule lists it although the name
    itself is not a known element (the tables disagree); such a child passes the
    parent's allowed-children test and only fails when visited itself."""
    out = {}
    for parent in MAP:
        al = allowed_children(parent)
        if al:
            for c in al:
                if c not in MAP:
                    out.setdefault(c, []).append(parent)
    return out


LISTED_UNKNOWN = listed_but_unknown()


TYPED_VALUES = {
    "yearDateContent": ["2017", " 2017 ", "2017-05-01", "2017-05-01\n", "2020-02-30", " 2020-02-30 ", "17", "", "\t1999"],
    "timeContent": ["12:00:00", " 12:00:00", "25:00", "12:00:00Z ", "noon"],
    "floatContent": ["0.0", " 0.5 ", "abc", "1e3", "nan", "-1", None],
    "floatRangeContent_EW": ["0.0", " 0.5 ", "-181", "180", "180.0001", "nan", "abc", None, "-180"],
    "floatRangeContent_NS": ["0.0", " 45 ", "-91", "90", "nan", "abc", None],
    "floatContent_Nonnegative": ["0", " 1.5 ", "-0.0", "-1", "inf", "x", None],
    "intContent": ["1", " 2", "x", "1.5", "-3", None],
    "uriContent": ["https://a.org/x", "ftp://h", "http://", "mailto:x", " https://a.org ", "https://\u00e9.org", "\ud800",
                   "http://example.org/data[1].csv", "https://a.org/a b", "http://[::1", "https://a.org/%zz", "HTTP://A.ORG"],
}


def typed_values(name):
    """Boundary-flavoured content for elements whose rule types the content."""
    r = RULES.get(MAP.get(name))
    if not r or not isinstance(r[2], dict):
        return None
    out = []
    for cr in r[2].get("content_rules", ()):
        out.extend(TYPED_VALUES.get(cr, ()))
    enum = r[2].get("content_enum")
    if enum:
        out.extend(list(enum) + [" %s " % enum[0], enum[0].upper(), "nosuch"])
    return out or None


# ---------------------------------------------------------------- rule-guided documents
VALID_VALUES = {
    "yearDateContent": ["2017", "2017-05-01"], "timeContent": ["12:00:00"], "floatContent": ["0.5"],
    "floatRangeContent_EW": ["-120.5", "0.0"], "floatRangeContent_NS": ["45.0", "0.0"],
    "floatContent_Nonnegative": ["1.5", "0"], "intContent": ["3"], "uriContent": ["https://a.org/x"],
}
WORDS = ["turtle", "count", "Green sea turtle counts", "x", "a < b & c", "1", "EDI"]


def _is_rule_child(spec):
    return isinstance(spec, list) and spec and isinstance(spec[0], str)


def _is_choice(spec):
    return (isinstance(spec, list) and len(spec) >= 3 and isinstance(spec[0], list)
            and isinstance(spec[-2], int) and not isinstance(spec[-2], bool))


def gen_tree(rng, name, budget, depth=0):
    """A literal spec [name, attrs, content, children] for element `name`, following the rule
    the tables give it: required parts always, optional parts sometimes, repeated parts a few
    times.  The harness's own walk over rules.json; the result is usually valid, not always
    (it is a workload, not an oracle).  `budget` is a one-element list counting nodes left."""
    budget[0] -= 1
    r = RULES.get(MAP.get(name))
    if r is None:
        return [name, {}, None, []]
    attrs = {}
    for a, spec in r[0].items():
        if (spec and spec[0]) or rng.random() < 0.25:
            attrs[a] = rng.choice(spec[1:]) if len(spec) > 1 else rng.choice(["v", "id7", "en"])
    content = None
    cspec = r[2] if isinstance(r[2], dict) else {}
    crs = cspec.get("content_rules", [])
    if "content_enum" in cspec:
        content = rng.choice(cspec["content_enum"])
    else:
        for c in crs:
            if c in VALID_VALUES:
                content = rng.choice(VALID_VALUES[c])
        if content is None and "emptyContent" not in crs and ("nonEmptyContent" in crs or rng.random() < 0.6):
            content = rng.choice(WORDS)
    kids = []
    lean = depth >= 3 or budget[0] < 8

    def emit(spec):
        if not spec or budget[0] <= 0:
            return
        if _is_rule_child(spec):
            cname, lo, hi = spec[0], spec[-2], spec[-1]
            # the table under test may be malformed; the workload generator must not care
            lo = lo if isinstance(lo, int) and not isinstance(lo, bool) else 0
            hi = hi if isinstance(hi, int) and not isinstance(hi, bool) else None
            n = lo
            if not lean and (hi is None or hi > lo) and rng.random() < 0.45:
                n = lo + rng.choice([1, 1, 2])
                if hi is not None:
                    n = min(n, hi)
            for _ in range(n):
                if budget[0] <= 0 and lo == 0:
                    break
                kids.append(gen_tree(rng, cname, budget, depth + 1))
        elif _is_choice(spec):
            lo, hi = spec[-2], spec[-1]
            hi = hi if isinstance(hi, int) and not isinstance(hi, bool) else None
            n = lo
            if not lean and (hi is None or hi > lo) and rng.random() < 0.4:
                n = lo + 1
            alts = spec[:-2]
            for _ in range(n):
                # prefer alternatives other than a bare references element
                pool = [a for a in alts if not (_is_rule_child(a) and a[0] == "references")] or alts
                emit(rng.choice(pool))
        else:
            for part in spec:
                emit(part)

    if depth < 7:
        emit(r[1])
    if content is not None and kids and "emptyContent" not in crs and rng.random() < 0.7:
        content = None
    return [name, attrs, content, kids]


_WITH_CHILDREN = sorted(n for n in MAP if RULES.get(MAP[n]) and RULES[MAP[n]][1])
_ALL = sorted(MAP)


def safe_gen_tree(rng, name, budget):
    try:
        return gen_tree(rng, name, budget)
    except Exception:       # noqa: BLE001  a malformed table must not stop the workload
        return [name, {}, None, []]


def random_element(rng):
    """Any known element name, those whose rule has a children section preferred."""
    return rng.choice(_WITH_CHILDREN) if rng.random() < 0.75 else rng.choice(_ALL)
