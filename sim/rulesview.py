"""The harness's own reading of the rule table: which names are known, which
children a name's rule lists.  Ten lines of flattening over rules.json and the
name -> rule map; the library's Rule class is not asked."""
import json
import os

from . import bootstrap as B

with open(os.path.join(B.SRC, "metapype", "eml", "rules.json"), "r", encoding="utf-8") as _f:
    RULES = json.load(_f)
MAP = dict(B.rule.node_mappings)


def _flatten(spec, out):
    if isinstance(spec, list) and spec:
        if isinstance(spec[0], str):
            out.add(spec[0])
        else:
            for x in spec:
                _flatten(x, out)


_ALLOWED = {}


def known(name):
    return name in MAP


def rule_of(name):
    return MAP.get(name)


def allowed_children(name):
    """Set of child names the rule of element `name` lists, or None if the
    name is unknown (or maps to a rule the table does not hold)."""
    if name not in _ALLOWED:
        r = RULES.get(MAP.get(name))
        if r is None:
            _ALLOWED[name] = None
        else:
            s = set()
            _flatten(r[1], s)
            _ALLOWED[name] = frozenset(s)
    return _ALLOWED[name]
