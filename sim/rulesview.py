"""The harness's own reading of the rule table: which names are known, which
children a name's rule lists.  Ten lines of flattening over rules.json and the
name -> rule map; the library's Rule class is not asked."""
import json
import os

from . import bootstrap as B

with open(os.path.join(B.SRC, "metapype", "eml", "rules.json"), "r", encoding="utf-8") as _f:
    RULES = json.load(_f)
MAP = dict(B.rule.node_mappings)


def _flatten(spec, out):
    if isinstance(spec, list) and spec:
        if isinstance(spec[0], str):
            out.add(spec[0])
        else:
            for x in spec:
                _flatten(x, out)


_ALLOWED = {}


def known(name):
    return name in MAP


def rule_of(name):
    return MAP.get(name)


def allowed_children(name):
    """Set of child names the rule of element `name` lists, or None if the
    name is unknown (or maps to a rule the table does not hold)."""
    if name not in _ALLOWED:
        r = RULES.get(MAP.get(name))
        if r is None:
            _ALLOWED[name] = None
        else:
            s = set()
            _flatten(r[1], s)
            _ALLOWED[name] = frozenset(s)
    return _ALLOWED[name]


def listed_but_unknown():
    """child name -> parent element names whose rule lists it although the name
    itself is not a known element (the tables disagree); such a child passes the
    parent's allowed-children test and only fails when visited itself."""
    out = {}
    for parent in MAP:
        al = allowed_children(parent)
        if al:
            for c in al:
                if c not in MAP:
                    out.setdefault(c, []).append(parent)
    return out


LISTED_UNKNOWN = listed_but_unknown()


TYPED_VALUES = {
    "yearDateContent": ["2017", " 2017 ", "2017-05-01", "2017-05-01\n", "2020-02-30", " 2020-02-30 ", "17", "", "\t1999"],
    "timeContent": ["12:00:00", " 12:00:00", "25:00", "12:00:00Z ", "noon"],
    "floatContent": ["0.0", " 0.5 ", "abc", "1e3", "nan", "-1", None],
    "floatRangeContent_EW": ["0.0", " 0.5 ", "-181", "180", "180.0001", "nan", "abc", None, "-180"],
    "floatRangeContent_NS": ["0.0", " 45 ", "-91", "90", "nan", "abc", None],
    "floatContent_Nonnegative": ["0", " 1.5 ", "-0.0", "-1", "inf", "x", None],
    "intContent": ["1", " 2", "x", "1.5", "-3", None],
    "uriContent": ["https://a.org/x", "ftp://h", "http://", "mailto:x", " https://a.org ", "https://\u00e9.org", "\ud800"],
}


def typed_values(name):
    """Boundary-flavoured content for elements whose rule types the content."""
    r = RULES.get(MAP.get(name))
    if not r or not isinstance(r[2], dict):
        return None
    out = []
    for cr in r[2].get("content_rules", ()):
        out.extend(TYPED_VALUES.get(cr, ()))
    enum = r[2].get("content_enum")
    if enum:
        out.extend(list(enum) + [" %s " % enum[0], enum[0].upper(), "nosuch"])
    return out or None
