"""Deterministic simulator for metapype-eml (see /verif/DESIGN.md)."""
