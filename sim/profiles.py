"""Profiles: one per claimed property.  A profile fixes the operation mix and
evaluates only its own property's clauses; everything else is adopted."""
from . import bootstrap as B
from .gen import base_cfg, swarm_weights
from .ops import KINDS, _MISSING
from .world import (CH, PA, NS, FI, RG, NO, ASPECT_NAMES, FIELD_NAMES, F_ID, F_NAME, F_ATTRS)

Node = B.Node
_PRE = ("<pre>",)
ALL = (CH, PA, NS, FI, RG)
ALL_RO = (CH, PA, NS, FI, RG, NO)    # read-only operations must not even reorder prefixes


class Violation:
    def __init__(self, prop, clause, sig, msg, detail=None):
        self.prop, self.clause, self.sig, self.msg = prop, clause, sig, msg
        self.detail = detail or {}
        self.step = None
        self.op = None

    def key(self):
        return (self.prop, self.clause, self.sig)

    def to_json(self):
        return {"property": self.prop, "clause": self.clause, "sig": self.sig, "msg": self.msg,
                "step": self.step, "op": self.op, "detail": self.detail}


def short(v, n=200):
    r = ascii(v)
    return r if len(r) <= n else r[:n] + "..."


def check_exp(prop, kindname, aspects, exp, pre, post, scope=None, exclude_footprint=False,
              eclause="E", fclause="F"):
    """Effect on the footprint, frame everywhere else.  Returns the first
    Violation or None."""
    cells_want, free = exp.cells, exp.free
    pcells = post.cells
    npre = len(pre.cells)
    if not exclude_footprint:
        for key, want in cells_want.items():
            h, a = key
            if a not in aspects or key in free or h >= npre:
                continue
            if scope is not None and h not in scope:
                continue
            c, pc = pre.cells[h], pcells[h]
            if c is None or pc is None:
                continue
            got = pc[a]
            if callable(want):
                if want(got):
                    continue
                exp_s = repr(want)
            elif got == want:
                continue
            else:
                exp_s = short(want)
            return Violation(prop, eclause, "%s:effect:%s" % (kindname, ASPECT_NAMES[a]),
                             "node h%d: %s after the operation is not what it specifies" % (h, ASPECT_NAMES[a]),
                             {"handle": h, "aspect": ASPECT_NAMES[a], "expected": exp_s, "after": short(got),
                              "before": short(c[a])})
    for h, c in enumerate(pre.cells):
        if c is None:
            continue
        pc = pcells[h]
        if pc is None or pc == c:
            continue
        if scope is not None and h not in scope:
            continue
        for a in aspects:
            key = (h, a)
            if key in free or key in cells_want:
                continue
            got = pc[a]
            if got != c[a]:
                return Violation(prop, fclause, "%s:frame:%s" % (kindname, ASPECT_NAMES[a]),
                                 "node h%d outside the operation's footprint changed its %s" % (h, ASPECT_NAMES[a]),
                                 {"handle": h, "aspect": ASPECT_NAMES[a], "before": short(c[a]), "after": short(got)})
    return None


def to_handles(W, v):
    """Map a returned value to handle terms."""
    if isinstance(v, Node):
        return W.h_of.get(id(v), ("unknown-node",))
    if isinstance(v, (list, tuple)):
        return [to_handles(W, x) for x in v]
    return v


class Ctx:
    __slots__ = ("W", "op", "kobj", "R", "pre", "post", "out", "exp", "nh", "state", "step")


class Profile:
    prop = None
    name = None
    design_ref = None

    def cfg(self, rng, seed):
        cfg = base_cfg(rng, seed)
        cfg["weights"] = swarm_weights(rng, self.weights(cfg, rng), keep=self.keep)
        cfg["faults"] = rng.random() < 0.5     # half of all runs are fault-free
        if rng.random() < 0.08:
            # broad run: every operation kind of the alphabet gets a small weight, so that this
            # property's clauses are also judged in states only other profiles' operations reach
            cfg["broad"] = True
            for k in sorted(KINDS):
                if k not in cfg["weights"] and k not in self.never and not k.startswith("x_"):
                    cfg["weights"][k] = 0.7
        if not cfg["faults"]:
            for k in self.fault_kinds:
                cfg["weights"].pop(k, None)
        long_run = cfg["steps"] >= 600
        self.tune(cfg, rng)
        if long_run:
            # very long histories stay on small worlds (a step costs a snapshot of the whole world)
            cfg["steps"] = max(cfg["steps"], 600)
            cfg["universe"] = min(cfg.get("universe", 40), 40)
            cfg["eml_universe"] = min(cfg.get("eml_universe", 80), 80)
            cfg["world_cap"] = 120
            for k in ("restart", "forget", "import_xml", "eml_seed"):
                if k in cfg["weights"]:
                    cfg["weights"][k] *= 0.2     # the expensive steps, thinned out
            cfg["max_copy"] = min(cfg.get("max_copy", 20), 20)
            cfg.pop("big_world", None)
        return cfg

    keep = ("new",)
    fault_kinds = ()
    own_kinds = frozenset()
    # kinds that would put a run outside this property's stated conditions
    never = frozenset(["json_twin", "raw_append", "nsmap_item", "clk"])

    def tune(self, cfg, rng):
        pass

    def start(self, state):
        pass

    def judge(self, c):
        return None

    def probes(self, c, P):
        pass

    def skipped(self, c):
        """A step that was executed but is not judged at all (resource exhaustion on a very deep
        tree): whatever the profile remembers across steps must not trust the world any more."""
        st = c.state
        if "pairs" in st:
            st["pairs"] = []
        if "memo" in st:
            st["memo"].clear()
            st["epoch"] = st.get("epoch", 0) + 1
        if "last_prune" in st:
            st["last_prune"] = None
            st["epoch"] = st.get("epoch", 0) + 1

    def hang_is_judged(self, pre, R, op, kobj):
        try:
            return kobj.spec(pre, R, op, None).judged
        except Exception:       # noqa: BLE001
            return False


class _NoExp:
    cells = {}
    free = frozenset()
    judged = True
    notes = {}


_NOEXP = _NoExp()


def bump(P, k, n=1):
    P[k] = P.get(k, 0) + n


# ============================================================== C09 edits
class Edits(Profile):
    prop = "C09"
    name = "edits"
    design_ref = "DESIGN.md section 5, C09"
    fault_kinds = ("x_remove_nonchild", "x_replace_mismatch", "x_replace_nonchild",
                   "x_shift_nonmember", "x_shift_baddir")
    keep = ("new", "add_child")
    expected_probes = ("shift_pos_right_edge", "shift_pos_left_edge", "shift_sib_right_edge", "shift_sib_left_edge",
                       "shift_pos_right_inner", "shift_pos_left_inner", "shift_sib_right_inner", "shift_sib_left_inner",
                       "replace_delete_old_subtree_gt1", "path_query_needs_backtracking", "path_single_found",
                       "find_all_descendants_prefilled", "add_child_insert_before_existing",
                       "failing_remove_nonchild_raised", "failing_replace_mismatch_raised",
                       "failing_replace_nonchild_raised", "failing_shift_nonmember_raised", "failing_shift_baddir_raised",
                       "query_find_child", "query_find_all_children", "query_find_descendant", "query_find_all_descendants",
                       "query_path_single", "query_path_all", "query_ancestry", "query_child_index",
                       "add_child_index_out_of_range", "edit_or_query_on_parent_with_17_or_more_children")
    own_kinds = frozenset(["add_child", "remove_child", "remove_children", "replace_child", "shift", "query",
                           "x_remove_nonchild", "x_replace_mismatch", "x_replace_nonchild",
                           "x_shift_nonmember", "x_shift_baddir"])

    def weights(self, cfg, rng):
        return {"new": 10, "add_child": 14, "remove_child": 5, "remove_children": 1,
                "replace_child": 5, "shift": 10, "query": 14,
                "x_remove_nonchild": 1.5, "x_replace_mismatch": 1.5, "x_replace_nonchild": 1.5,
                "x_shift_nonmember": 1.5, "x_shift_baddir": 1,
                "set_content": 1, "set_name": 1.5, "add_attr": 0.5, "copy": 1, "delete": 0.5,
                "add_ns": 0.5}

    def tune(self, cfg, rng):
        cfg["universe"] = rng.choice([2, 3, 3, 4, 4, 5, 6, 8, 12, 20, 40])
        cfg["nsess"] = rng.choice([1, 1, 1, 2, 3])
        cfg["p_oob_index"] = rng.choice([0.0, 0.0, 0.15, 0.4])
        if rng.random() < 0.002:
            # a few runs with one very long child list (hundreds of siblings)
            cfg["huge_fanout"] = True
            cfg["universe"], cfg["steps"], cfg["shape"], cfg["nsess"] = 600, 800, "wide", 1
            cfg["weights"] = {"new": 30, "add_child": 30, "shift": 8, "query": 4, "remove_child": 0.5}

    def judge(self, c):
        if not c.exp.judged:
            return None
        k = c.op["k"]
        if k == "add_child" and c.exp.notes.get("oob") and not c.out.ok:
            # An index outside 0..len: the ordered-list model is list.insert, which accepts any
            # integer; an implementation that refuses such an index instead is a failing edit
            # and must leave the tree unchanged.  Both are accepted.
            v = check_exp("C09", k, (CH,), _NOEXP, c.pre, c.post)
            if v:
                v.clause, v.sig = "E5", "add_child:out-of-range-index:raised-and-tree-changed"
                return v
            return self._links(c)
        v = check_exp("C09", k, (CH,), c.exp, c.pre, c.post)
        if v:
            if k == "add_child" and c.exp.notes.get("oob"):
                v.sig = "add_child:out-of-range-index:" + v.sig.split(":", 1)[1]
            if k.startswith("x_") and v.clause == "F":
                v.clause = "E5"
                v.sig = "%s:tree-changed" % k
            elif k == "shift":
                v.clause = "E4"
                v.sig = self._shift_sig(c, "children")
            elif v.clause == "E":
                v.clause = {"add_child": "E1", "remove_child": "E2", "remove_children": "E2",
                            "replace_child": "E3"}.get(k, "E")
            else:
                v.clause = "F1"
            return v
        v = self._links(c)
        if v:
            return v
        if k == "shift":
            if not c.out.ok:
                return Violation("C09", "E4", self._shift_sig(c, "raised:" + type(c.out.exc).__name__),
                                 "shift of a listed child raised %s" % short(c.out.exc),
                                 {"edge": c.exp.notes["edge"]})
            post_ch = c.post.cells[c.R["p"]][CH]
            actual = post_ch.index(c.R["c"]) if c.R["c"] in post_ch else None
            if c.out.value != actual:
                return Violation("C09", "E4", self._shift_sig(c, "stale-index"),
                                 "shift returned %r but the child is at index %r" % (c.out.value, actual),
                                 {"returned": short(c.out.value), "actual": actual})
        elif k == "query":
            acc = c.kobj.expected(c.pre, c.R, c.op)
            if c.op["q"] == "child_index" and acc == [None]:
                # asked about a node that is not a child: the statement does not say whether that is
                # None, -1 or an exception; only that the tree stays as it is (frame, above)
                return None
            if not c.out.ok:
                return Violation("C09", "E6", "query:%s:raised:%s" % (c.op["q"], type(c.out.exc).__name__),
                                 "query %s raised %s" % (c.op["q"], short(c.out.exc)))
            got = to_handles(c.W, c.out.value)
            if c.op["q"] == "get_instance":
                return None      # registry business (C14)
            if got not in acc:
                return Violation("C09", "E6", "query:%s:wrong" % c.op["q"],
                                 "query %s returned %s, the ordered tree implies %s" % (c.op["q"], short(got), short(acc)),
                                 {"got": short(got), "acceptable": short(acc)})
        return None

    def _shift_sig(self, c, what):
        return "shift:%s:%s:%s:%s" % ("sib" if c.op["sib"] else "pos", "right" if c.op["right"] else "left",
                                      "edge" if c.exp.notes.get("edge") else "inner", what)

    def _links(self, c):
        """F1: every listed child's parent link names its lister; no node is
        listed twice.  Only pairs that were fine before are reported, so an
        adopted divergence is reported once."""
        pre, post = c.pre, c.post
        npre = len(pre.cells)
        for h, ls in post.listers.items():
            if len(ls) > 1:
                old = pre.listers.get(h, ()) if h < npre else ()
                if len(old) <= 1:
                    return Violation("C09", "F1", "%s:listed-twice" % c.op["k"],
                                     "node h%d is listed %d times (by %s)" % (h, len(ls), ls))
                continue
            pa = post.cells[h][PA]
            if pa != ls[0]:
                if h < npre and pre.cells[h] is not None:
                    ols = pre.listers.get(h, ())
                    if len(ols) == 1 and ols[0] == ls[0] and pre.cells[h][PA] == pa:
                        continue     # was already wrong before this step: adopted earlier
                return Violation("C09", "F1", "%s:parent-link" % c.op["k"],
                                 "node h%d is listed by h%d but its parent link names %s" % (h, ls[0], short(pa)),
                                 {"child": h, "lister": ls[0], "parent_link": short(pa)})
        return None

    def probes(self, c, P):
        k = c.op["k"]
        if k in ("shift", "query") and "p" in c.R or k == "query":
            par = c.R.get("p", c.R.get("n"))
            if par is not None and len(c.pre.cells[par][CH]) >= 17:
                bump(P, "edit_or_query_on_parent_with_17_or_more_children")
        if k == "shift":
            n = c.exp.notes
            bump(P, "shift_%s_%s_%s" % ("sib" if c.op["sib"] else "pos", "right" if c.op["right"] else "left",
                                        "edge" if n.get("edge") else "inner"))
        elif k == "replace_child":
            if c.op["del"] and len(c.pre.subtree(c.R["old"])) > 1:
                bump(P, "replace_delete_old_subtree_gt1")
        elif k == "query":
            q = c.op["q"]
            bump(P, "query_" + q)
            if q == "path_single" and c.out.ok:
                acc = c.kobj.expected(c.pre, c.R, c.op)
                if len(acc) > 1:
                    bump(P, "path_query_needs_backtracking")
                if acc[0] is not None:
                    bump(P, "path_single_found")
            if q == "find_all_descendants" and c.op.get("prefill"):
                bump(P, "find_all_descendants_prefilled")
        elif k.startswith("x_"):
            bump(P, "failing_" + k[2:] + ("_raised" if not c.out.ok else "_returned"))
            bump(P, "fault:illegal_edit")
        elif k == "add_child" and c.R["i"] is not None:
            bump(P, "add_child_indexed")
            if c.exp.notes.get("oob"):
                bump(P, "add_child_index_out_of_range")
            elif c.R["i"] < len(c.pre.cells[c.R["p"]][CH]):
                bump(P, "add_child_insert_before_existing")


# ============================================================== C13 namespaces
class Namespaces(Profile):
    prop = "C13"
    name = "namespaces"
    design_ref = "DESIGN.md section 5, C13"
    fault_kinds = ("remove_child",)      # alias_carry needs detach + re-attach
    keep = ("new", "add_child", "add_ns")
    own_kinds = frozenset(["add_ns", "rm_ns", "add_child", "set_nsmap", "fix_nsmap", "copy"])
    expected_probes = ("declare_new", "redeclare", "redeclare_new_uri", "redeclare_on_map_shared_with_parent",
                       "redeclare_on_map_shared_outside_subtree", "remove_present", "remove_absent",
                       "remove_on_map_shared_outside_subtree", "attach_merges", "attach_merges_into_subtree",
                       "attach_equal_nonempty_maps", "alias_carry_attach", "fix_nsmap", "set_nsmap",
                       "fault:alias_carry")

    def weights(self, cfg, rng):
        return {"new": 8, "add_child": 14, "add_ns": 16, "rm_ns": 7, "remove_child": 6,
                "set_nsmap": 1.5, "fix_nsmap": 1.5, "copy": 2, "replace_child": 0.7,
                "remove_children": 0.5, "set_content": 0.5, "add_attr": 0.5, "shift": 0.5,
                "delete": 0.3, "query": 0.5, "import_xml": 0.7, "restart": 0.3}

    def tune(self, cfg, rng):
        cfg["universe"] = rng.choice([2, 3, 4, 5, 6, 8, 12, 25])
        cfg["nsess"] = rng.choice([1, 1, 2, 3])

    def judge(self, c):
        if not c.exp.judged:
            return None
        k = c.op["k"]
        v = check_exp("C13", k, (NS,), c.exp, c.pre, c.post)
        if v:
            if v.clause == "E":
                v.clause = {"add_ns": "E1", "rm_ns": "E2", "add_child": "E3", "set_nsmap": "E4"}.get(k, "E")
            else:
                v.clause = "F1" if k in ("add_ns", "rm_ns", "add_child", "set_nsmap", "fix_nsmap") else "F2"
                v.sig = "%s:isolation" % k if v.clause == "F1" else "%s:changed-bindings" % k
            return v
        if k == "copy" and c.out.ok and isinstance(c.out.value, Node):
            m = copy_mapping(c)
            if m is not None:
                for o, n in m:
                    if c.post.cells[n][NS] != c.pre.cells[o][NS]:
                        return Violation("C13", "F2", "copy:bindings-differ",
                                         "copy h%d of h%d has bindings %s, original has %s" %
                                         (n, o, short(c.post.cells[n][NS]), short(c.pre.cells[o][NS])))
        return None

    def probes(self, c, P):
        k = c.op["k"]
        W = c.W
        if k in ("add_ns", "rm_ns"):
            n = c.R["n"]
            ns = c.pre.nsdict(n)
            had = c.op["p"] in ns
            lister = c.pre.lister(n)
            sh = c.state.get("alias_pre")
            shared_up = sh is not None and lister is not None and sh[n] == sh[lister]
            shared_out = False
            if sh is not None:
                sub = set(c.pre.subtree(n))
                shared_out = any(g == sh[n] for h, g in enumerate(sh) if h not in sub and g >= 0)
            if k == "add_ns":
                bump(P, "declare_new" if not had else "redeclare")
                if had and ns[c.op["p"]] != c.op["u"]:
                    bump(P, "redeclare_new_uri")
                    if shared_up:
                        bump(P, "redeclare_on_map_shared_with_parent")
                    if shared_out:
                        bump(P, "redeclare_on_map_shared_outside_subtree")
            else:
                bump(P, "remove_present" if had else "remove_absent")
                if had and shared_out:
                    bump(P, "remove_on_map_shared_outside_subtree")
        elif k == "add_child":
            g = c.exp.notes.get("gained")
            if g:
                bump(P, "attach_merges")
                if len(c.pre.subtree(c.R["c"])) > 1:
                    bump(P, "attach_merges_into_subtree")
            elif c.pre.cells[c.R["p"]][NS] == c.pre.cells[c.R["c"]][NS]:
                bump(P, "attach_equal_maps")
                if c.pre.cells[c.R["p"]][NS]:
                    bump(P, "attach_equal_nonempty_maps")
            sh = c.state.get("alias_pre")
            if sh is not None:
                cc = c.R["c"]
                sub = set(c.pre.subtree(cc))
                if any(g == sh[cc] for h, g in enumerate(sh) if h not in sub and g >= 0):
                    bump(P, "alias_carry_attach")
                    bump(P, "fault:alias_carry")
        elif k == "fix_nsmap":
            bump(P, "fix_nsmap")
        elif k == "set_nsmap":
            bump(P, "set_nsmap")


def copy_mapping(c):
    """Pairs (original handle, copy handle) in pre-order if the copy has the
    original's shape, else None."""
    W = c.W
    root = W.h_of.get(id(c.out.value))
    if root is None:
        return None
    pairs = []
    stack = [(c.R["n"], root)]
    while stack:
        o, n = stack.pop()
        pairs.append((o, n))
        oc, nc = c.pre.cells[o][CH], c.post.cells[n][CH]
        if len(oc) != len(nc) or any(not isinstance(x, int) for x in nc):
            return None
        stack.extend(reversed(list(zip(oc, nc))))
    return pairs


# ============================================================== C14 registry
class Registry(Profile):
    prop = "C14"
    name = "registry"
    design_ref = "DESIGN.md section 5, C14"
    fault_kinds = ("clk", "raw_append", "forget", "x_replace_nonchild", "x_replace_mismatch", "x_remove_nonchild")
    keep = ("new",)
    own_kinds = frozenset(["new", "copy", "delete", "replace_child", "import_xml", "restart", "prune", "expand",
                           "remove_child", "remove_children", "forget"])
    expected_probes = ("delete_parent_after_child_unregistered", "delete_children", "delete_single", "delete_subtree_gt2",
                       "replace_delete_old", "replace_keep_old", "copy", "two_ids_same_clock_reading",
                       "clock_went_backwards_between_ids", "registry_prune_removed", "registry_expand_expanded",
                       "registry_import", "registry_restart", "fault:partial_unregister", "fault:restart",
                       "fault:client_drops_references", "forget_tree_gt1", "fault:child_list_edited_through_property")

    def weights(self, cfg, rng):
        return {"new": 12, "copy": 6, "add_child": 10, "remove_child": 4, "remove_children": 1,
                "replace_child": 6, "delete": 8, "clk": 8, "restart": 1.5, "import_xml": 2,
                "query": 2, "shift": 1, "set_content": 0.5, "add_ns": 0.5,
                "eml_seed": 1.5, "prune": 2, "expand": 2, "raw_append": 0.8, "forget": 0.8,
                "x_replace_nonchild": 1, "x_replace_mismatch": 0.7, "x_remove_nonchild": 0.5, "import_json": 0.5}

    def tune(self, cfg, rng):
        cfg["nsess"] = rng.choice([2, 2, 3, 4])
        cfg["partial"] = cfg["faults"]
        if rng.random() < 0.03:
            # a few runs with a very large registry (thousands of entries)
            cfg["big_world"] = True
            cfg["world_cap"] = 4000
            cfg["universe"] = 3000
            cfg["eml_universe"] = 3000
            cfg["weights"]["import_xml"] = cfg["weights"].get("import_xml", 1) * 6 + 6
            cfg["steps"] = min(cfg["steps"], 60)
        if not cfg["faults"]:
            cfg["p_delete_children"] = 1.0

    def judge(self, c):
        k = c.op["k"]
        if not c.exp.judged:
            return None
        if k == "forget":
            if c.out.ok and c.out.value["lost"]:
                h = c.out.value["lost"][0]
                return Violation("C14", "E1", "forget:not-retrievable-although-never-deleted",
                                 "after the client dropped its own references (and a garbage collection), node h%d "
                                 "is no longer retrievable by its id although nothing deleted it" % h,
                                 {"lost": c.out.value["lost"][:10]})
            if not c.out.ok:
                return Violation("C14", "harness", "forget:harness", "forget raised %s" % short(c.out.exc))
        if k in ("prune", "expand"):
            v = self._discarders(c, k)
            if v:
                return v
        v = check_exp("C14", k, (RG,), c.exp, c.pre, c.post)
        if v:
            if v.clause == "E":
                v.clause = {"delete": "E3", "replace_child": "E4", "prune": "E5", "expand": "E5"}.get(k, "E")
                h = v.detail.get("handle")
                v.sig = "%s:%s" % (k, "still-registered" if v.detail.get("after") == "True" else "unregistered")
                if k == "delete" and c.exp.notes.get("partial"):
                    v.sig += ":after-partial-unregister"
                if k == "replace_child" and c.exp.notes.get("old_unregistered"):
                    v.sig += ":below-node-unregistered-earlier"
            else:
                v.clause = "F1"
                v.sig = "%s:%s" % (k, "lost-registration" if v.detail.get("before") == "True" else "gained-registration")
            return v
        # F1': nothing that a live node outside the discarded part still lists may lose its
        # registration ("never unregister a node that is still in the tree")
        if k in ("delete", "replace_child", "prune", "expand"):
            lost = [h for h, cell in enumerate(c.pre.cells)
                    if cell is not None and cell[RG] and c.post.cells[h] is not None and not c.post.cells[h][RG]]
            if lost:
                lostset = set(lost)
                for h in lost:
                    if k == "delete" and h == c.R["n"]:
                        continue      # deleting by id is registry-only: the node may stay where it is
                    for l in c.post.listers.get(h, ()):
                        if l not in lostset and c.post.cells[l][RG]:
                            return Violation("C14", "F1", "%s:unregisters-node-still-listed" % k,
                                             "%s unregistered h%d, which live node h%d (not discarded) still lists" % (k, h, l),
                                             {"node": h, "lister": l})
        # E1: nodes that came into being in this step are registered under their id
        # (expand is judged by E5 above: copies that end up in the tree must be registered; a copy
        # made below a references node that the same call then discards with its subtree is not in
        # the tree and must not be)
        creating = k in ("new", "copy", "import_xml", "import_json", "restart", "eml_seed")
        for h in range(c.nh, len(c.post.cells)):
            pc = c.post.cells[h]
            if pc is None:
                continue
            if creating and not pc[RG]:
                return Violation("C14", "E1", "%s:new-node-unregistered" % k,
                                 "node h%d created by %s is not retrievable by its id %s" % (h, k, short(pc[FI][F_ID])))
        # E2: uniqueness of ids over every node object ever held
        for nid, h1, h2 in c.state["collisions"]:
            return Violation("C14", "E2", "%s:id-collision" % k,
                             "distinct nodes h%d and h%d carry the same id %s" % (h1, h2, short(nid)),
                             {"id": short(nid)})
        # F2: the registry holds exactly the registered nodes, keyed by their own id
        for key, h in c.post.store.items():
            if not isinstance(h, int) or c.post.cells[h] is None or c.post.cells[h][FI][F_ID] != key:
                if c.pre.store.get(key, _MISSING) == h:
                    continue
                return Violation("C14", "F2", "%s:foreign-registry-entry" % k,
                                 "registry key %s maps to %s" % (short(key), short(h)))
        return None

    def _discarders(self, c, k):
        """E5: prune and expand, whether they return or raise: what left the
        tree left the registry, what stayed (or arrived) is registered."""
        pre, post, n = c.pre, c.post, c.R["n"]
        after = set(post.subtree(n))
        for h in pre.subtree(n):
            if h not in after:
                if post.cells[h][RG]:
                    # was a node between the discarded root and h unregistered on its own before?
                    chain = [h] + pre.ancestors(h)
                    up = [x for x in chain[1:] if x not in after]
                    sig = "%s:discarded-still-registered" % k
                    if any(not pre.cells[x][RG] for x in up):
                        sig += ":below-node-unregistered-earlier"
                    return Violation("C14", "E5", sig,
                                     "node h%d (%s) left the tree in %s but is still registered" % (h, pre.name(h), k),
                                     {"discarded_ancestors": up})
            elif pre.cells[h][RG] and not post.cells[h][RG]:
                return Violation("C14", "E5", "%s:kept-unregistered" % k,
                                 "node h%d (%s) is still in the tree after %s but lost its registration" % (h, pre.name(h), k))
        for h in after:
            if h >= c.nh and not post.cells[h][RG]:
                return Violation("C14", "E5", "%s:new-node-unregistered" % k,
                                 "node h%d put into the tree by %s is not registered" % (h, k))
        return None

    def probes(self, c, P):
        k = c.op["k"]
        if k == "delete":
            if c.exp.judged and c.exp.notes.get("partial"):
                bump(P, "delete_parent_after_child_unregistered")
            bump(P, "delete_children" if c.op["children"] else "delete_single")
            if c.exp.judged and c.op["children"] and len(c.pre.subtree(c.R["n"])) > 2:
                bump(P, "delete_subtree_gt2")
        elif k == "replace_child":
            bump(P, "replace_delete_old" if c.op["del"] else "replace_keep_old")
        elif k == "copy":
            bump(P, "copy")
        elif k == "prune" and c.out.ok and c.out.value["pruned"]:
            bump(P, "registry_prune_removed")
        elif k == "expand" and c.out.ok and len(c.post.cells) > c.nh:
            bump(P, "registry_expand_expanded")
        elif k == "import_xml" and c.out.ok:
            bump(P, "registry_import")
        elif k == "restart" and c.out.ok:
            bump(P, "registry_restart")
            bump(P, "fault:restart")
        elif k == "forget" and c.out.ok:
            bump(P, "fault:client_drops_references")
            if c.out.value["size"] > 1:
                bump(P, "forget_tree_gt1")
        elif k == "raw_append" and c.out.ok:
            bump(P, "fault:child_list_edited_through_property")
        elif k.startswith("x_"):
            bump(P, "fault:illegal_edit")
        if k == "delete" and c.exp.judged and c.exp.notes.get("partial"):
            bump(P, "fault:partial_unregister")
        cl = c.W.clock
        P["two_ids_same_clock_reading"] = cl.same_reading
        P["clock_went_backwards_between_ids"] = cl.backwards


def independence(c, prop, pairs, clause, names=("source", "copy"), aspects=None):
    """Edits whose operands lie on one side of a (source, copy) pair must not be
    visible on the other side.  Only leakage the caller did not ask for is
    reported: a pair is retired as soon as an operation has operands on both
    sides (the caller links the trees), and whatever tree one side gets attached
    to or receives counts as part of it from then on (attach may legitimately
    share the parent's namespace map with the child, and that map may already be
    shared along the whole tree); if the two sides come to overlap that way the
    pair is retired as well."""
    k = c.op["k"]
    if not pairs or not KINDS[k].mutating:
        return None
    aspects = aspects or ALL
    touched = set(x for x in c.R.values() if isinstance(x, int))
    if k == "nsmap_item":
        # Writing through the nsmap property reaches every node that shares the dictionary.
        # Sharing is legitimate along attach chains and survives detaches, so the by-value
        # sets above are not enough here.  What is certain: a dictionary made by copy() is
        # shared only downwards and with nodes attached below copy nodes later, and a copy
        # node keeps it until it is itself attached somewhere (dirty).
        n = c.R["n"]
        for (oset, cset, born, dirty) in pairs:
            pristine = born - dirty
            if n not in cset:
                scope, who = pristine, names[1]
            elif n in pristine:
                scope, who = oset - cset, names[0]
            else:
                continue
            v = check_exp(prop, k, aspects, c.exp, c.pre, c.post, scope=scope, exclude_footprint=True)
            if v:
                v.clause = clause
                v.sig = "%s:leaks-into-%s:%s" % (k, who, v.detail.get("aspect"))
                v.msg = "edit %s on one side changed the %s: %s" % (k, who, v.msg)
                return v
        return None
    keep = []
    for pr in pairs:
        oset, cset, born, dirty = pr
        if touched & oset and touched & cset:
            continue
        for side in (oset, cset):
            if touched & side:
                for x in touched - side:
                    # the whole tree x sits in: maps are shared along attach chains
                    # (parent, siblings, their descendants), not only below x
                    side.update(c.pre.subtree(c.pre.root_of(x)))
                # ... and whatever the operation itself has put into that side's trees (reference
                # expansion and import attach new nodes below the ones they are given; attached
                # with equal maps they share the map of the node they hang under)
                for x in touched & side:
                    if c.post.cells[x] is not None:
                        side.update(c.post.subtree(c.post.root_of(x)))
        if oset & cset:
            continue
        if k == "add_child" and c.R["c"] in born:
            dirty.add(c.R["c"])
        elif k in ("replace_child", "x_replace_mismatch", "x_replace_nonchild") and c.R.get("new") in born:
            dirty.add(c.R["new"])
        elif k in ("set_nsmap", "fix_nsmap"):
            dirty.update(born & set(c.pre.subtree(c.R["n"])))   # caller-supplied or re-pointed dictionaries
        keep.append(pr)
    pairs[:] = keep
    for (oset, cset, born, dirty) in pairs:
        for mine, other, who in ((oset, cset, names[1]), (cset, oset, names[0])):
            if touched & mine and not (touched & other):
                v = check_exp(prop, k, aspects, c.exp, c.pre, c.post, scope=other, exclude_footprint=True)
                if v:
                    v.clause = clause
                    v.sig = "%s:leaks-into-%s:%s" % (k, who, v.detail.get("aspect"))
                    v.msg = "edit %s on one side changed the %s: %s" % (k, who, v.msg)
                    return v
    return None


# ============================================================== C12 copy
class CopyP(Profile):
    prop = "C12"
    name = "copy"
    design_ref = "DESIGN.md section 5, C12"
    keep = ("new", "add_child", "copy")
    own_kinds = frozenset(["copy"])
    expected_probes = ("copy_subtree_1", "copy_subtree_2_5", "copy_subtree_gt5", "copy_of_node_sharing_map", "copy_of_copy",
                       "edit_copy_side:set_content", "edit_original_side:set_content", "edit_copy_side:attr_item",
                       "edit_original_side:attr_item", "edit_copy_side:extras_item", "edit_original_side:extras_item",
                       "edit_copy_side:add_ns", "edit_original_side:add_ns", "edit_copy_side:add_child",
                       "edit_original_side:add_child", "edit_copy_side:remove_child", "edit_original_side:remove_child",
                       "edit_copy_side:rm_ns", "edit_original_side:rm_attr", "edit_copy_side:shift", "copy_depth_gt_32",
                       "edit_copy_side:nsmap_item", "edit_original_side:nsmap_item")

    def weights(self, cfg, rng):
        return {"new": 8, "add_child": 12, "copy": 8, "set_content": 3, "set_tail": 2, "set_prefix": 2,
                "add_attr": 3, "rm_attr": 2, "attr_item": 3, "extras_item": 3, "add_extras": 2,
                "add_ns": 4, "rm_ns": 2, "remove_child": 3, "shift": 2, "replace_child": 2,
                "set_name": 1, "delete": 1, "remove_children": 0.5, "set_nsmap": 0.5, "eml_seed": 1,
                "import_xml": 0.7, "nsmap_item": 2, "query": 5, "import_json": 0.3}

    def start(self, state):
        state["pairs"] = []      # (orig_set, copy_set)

    def judge(self, c):
        k = c.op["k"]
        st = c.state
        if k == "copy":
            v = self._copy_step(c)
            if v:
                return v
        if (k == "query" and c.out.ok and st["pairs"] and c.op["q"] in
                ("find_child", "find_all_children", "find_descendant", "find_all_descendants", "path_single", "path_all")):
            # F2 as the search queries see it: a question asked of one tree is never answered
            # with a node of its counterpart (shared caches and the like)
            got = to_handles(c.W, c.out.value)
            got = got if isinstance(got, list) else [got]
            hs = set(x for x in got if isinstance(x, int))
            n = c.R["n"]
            for (oset, cset, born, dirty) in st["pairs"]:
                for mine, other, who in ((oset, cset, "copy"), (cset, oset, "original")):
                    if n in mine and n not in other:
                        bad = sorted(hs & other - mine)
                        if bad:
                            return Violation("C12", "F2", "query:%s:answers-with-node-of-the-%s" % (c.op["q"], who),
                                             "query %s on h%d returned h%s, which belongs to the %s" % (c.op["q"], n, bad, who),
                                             {"returned": short(got)})
        # F2: independence
        return independence(c, "C12", st["pairs"], "F2", ("original", "copy"))

    def _copy_step(self, c):
        if not c.out.ok:
            return Violation("C12", "E1", "copy:raised:%s" % type(c.out.exc).__name__,
                             "copy raised %s" % short(c.out.exc))
        W = c.W
        val = c.out.value
        if not isinstance(val, Node):
            return Violation("C12", "E1", "copy:not-a-node", "copy returned %s" % short(val))
        root = W.h_of[id(val)]
        orig = c.R["n"]
        if root < c.nh:
            return Violation("C12", "E1", "copy:shared-node", "copy returned an existing node h%d" % root)
        # F1: the original (indeed the whole pre-world) is unchanged
        v = check_exp("C12", "copy", ALL, c.exp, c.pre, c.post)
        if v:
            v.clause = "F1"
            v.sig = "copy:changes-existing:%s" % v.detail.get("aspect")
            return v
        pre, post = c.pre, c.post
        stack = [(orig, root, None)]
        cset = set()
        while stack:
            o, n, par = stack.pop()
            if not isinstance(n, int) or n < c.nh:
                return Violation("C12", "E1", "copy:shared-node",
                                 "the copy lists %s, which is not a new node" % short(n))
            if n in cset:
                return Violation("C12", "E1", "copy:shared-node", "the copy lists h%d twice" % n)
            cset.add(n)
            oc, nc = pre.cells[o], post.cells[n]
            for fi in range(1, 7):
                if oc[FI][fi] != nc[FI][fi]:
                    return Violation("C12", "E1", "copy:field-differs:%s" % FIELD_NAMES[fi],
                                     "copy h%d of h%d differs in %s: %s vs %s" %
                                     (n, o, FIELD_NAMES[fi], short(nc[FI][fi]), short(oc[FI][fi])))
            if oc[NS] != nc[NS]:
                return Violation("C12", "E1", "copy:field-differs:nsmap",
                                 "copy h%d of h%d differs in namespace map: %s vs %s" % (n, o, short(nc[NS]), short(oc[NS])))
            if len(oc[CH]) != len(nc[CH]):
                return Violation("C12", "E1", "copy:children-differ",
                                 "copy h%d has %d children, original h%d has %d" % (n, len(nc[CH]), o, len(oc[CH])))
            if not nc[RG]:
                return Violation("C12", "E1", "copy:unregistered",
                                 "copy node h%d is not retrievable by its id" % n)
            if par is not None and nc[PA] != par:
                return Violation("C12", "E1", "copy:parent-link",
                                 "copy node h%d has parent link %s, its lister in the copy is h%d" % (n, short(nc[PA]), par))
            if par is None and isinstance(nc[PA], int) and nc[PA] >= c.nh:
                return Violation("C12", "E1", "copy:parent-link", "copy root points into the copy")
            stack.extend((a, b, n) for a, b in reversed(list(zip(oc[CH], nc[CH]))))
        for nid, h1, h2 in c.state["collisions"]:
            return Violation("C12", "E1", "copy:id-not-fresh",
                             "copy node h%d carries id %s already used by h%d" % (h2, short(nid), h1))
        c.state["pairs"].append([set(pre.subtree(orig)), set(cset), frozenset(cset), set()])
        if len(c.state["pairs"]) > 6:
            c.state["pairs"].pop(0)
        return None

    def probes(self, c, P):
        k = c.op["k"]
        st = c.state
        if k == "copy" and c.out.ok:
            n = len(c.pre.subtree(c.R["n"]))
            bump(P, "copy_subtree_1" if n == 1 else "copy_subtree_2_5" if n <= 5 else "copy_subtree_gt5")
            if n > 32:
                depth, frontier = 0, [c.R["n"]]
                while frontier:
                    depth += 1
                    frontier = [k2 for h in frontier for k2 in c.pre.cells[h][CH] if isinstance(k2, int)]
                if depth > 32:
                    bump(P, "copy_depth_gt_32")
            sh = st.get("alias_pre")
            if sh is not None and n > 1:
                o = c.R["n"]
                if any(sh[x] == sh[o] for x in c.pre.subtree(o)[1:]):
                    bump(P, "copy_of_node_sharing_map")
            for (oset, cset, _b, _d) in st["pairs"][:-1]:
                if c.R["n"] in cset:
                    bump(P, "copy_of_copy")
        elif st["pairs"] and KINDS[k].mutating:
            touched = set(x for x in c.R.values() if isinstance(x, int))
            for (oset, cset, _b, _d) in st["pairs"]:
                if touched & cset and not touched & oset:
                    bump(P, "edit_copy_side:" + k)
                elif touched & oset and not touched & cset:
                    bump(P, "edit_original_side:" + k)


# ============================================================== C11 readonly
class ReadOnly(Profile):
    prop = "C11"
    name = "readonly"
    design_ref = "DESIGN.md section 5, C11"
    keep = ("new", "add_child", "ro", "query")
    own_kinds = frozenset(["ro", "query"])
    expected_probes = tuple("ro:%s:ok" % f for f in (
        "validate_tree", "validate_tree_errs", "validate_node", "validate_node_errs", "evaluate_tree", "evaluate_node",
        "to_json", "mp_to_json", "to_xml", "export_to_xml", "graph", "mp_graph", "str", "repr", "is_allowed_child",
        "child_insert_index", "is_equal", "find_child", "find_descendant", "path_all", "ancestry")) + (
        "ro_repeat_compared", "ro:validate_tree:raised", "ro_on_corpus_document", "ro_hostile_text")

    def weights(self, cfg, rng):
        return {"new": 5, "add_child": 6, "ro": 40, "query": 8, "set_content": 4, "set_tail": 1,
                "add_attr": 2, "rm_attr": 2, "add_ns": rng.choice([1, 1, 6]), "set_prefix": 1, "remove_child": 1,
                "shift": 1, "eml_seed": 3, "import_xml": 1.5, "copy": 1, "add_extras": 1, "delete": 0.7,
                "set_name": 1, "rm_ns": 0.3, "restart": 0.3, "import_json": 0.7}

    def tune(self, cfg, rng):
        cfg["alphabets"] = sorted(set(cfg["alphabets"]) | {"xml"}) if rng.random() < 0.7 else cfg["alphabets"]
        # known element names (some with required attributes, typed content or evaluators) and unknown ones
        pool = ["eml", "access", "userId", "title", "dataset", "creator", "individualName", "surName", "para",
                "abstract", "keyword", "pubDate", "onlineUrl", "westBoundingCoordinate", "description", "metadata",
                "additionalMetadata", "allow", "permission", "taxonId", "bogus", "a"]
        cfg["names"] = sorted(rng.sample(pool, rng.choice([3, 5, 8])))

    def start(self, state):
        state["epoch"] = 0
        state["memo"] = {}

    def judge(self, c):
        kobj = c.kobj
        st = c.state
        if not kobj.readonly:
            if kobj.mutating:
                st["epoch"] += 1
                st["memo"].clear()
            return None
        k = c.op["k"]
        what = c.op.get("q") or c.op.get("f") or k
        if len(c.post.cells) != len(c.pre.cells):
            extra = [h for h in range(len(c.pre.cells), len(c.post.cells))]
            if any(c.post.cells[h] is not None and c.post.cells[h][RG] for h in extra):
                return Violation("C11", "F1", "%s:registers-nodes" % what,
                                 "read-only %s left %d new registered node(s) behind" % (what, len(extra)))
        v = check_exp("C11", what, ALL_RO, c.exp, c.pre, c.post)
        if v:
            v.clause = "F1"
            a = v.detail.get("aspect")
            v.sig = "%s:modifies:%s" % (what, a)
            if a == "fields":
                h = v.detail["handle"]
                b, af = c.pre.cells[h][FI], c.post.cells[h][FI]
                diff = [FIELD_NAMES[i] for i in range(7) if b[i] != af[i]]
                v.sig = "%s:modifies:%s" % (what, "+".join(diff))
            return v
        if c.post.store != c.pre.store:
            return Violation("C11", "F1", "%s:modifies:registry" % what,
                             "read-only %s changed the key set of the node registry" % what)
        # E1: order independence -- same question, no mutation in between, same answer
        from .emlops import ro_key, ro_answer
        key = ro_key(c.op, c.R)
        if key is not None:
            ans = ro_answer(c.W, c.out)
            old = st["memo"].get(key)
            if old is None:
                st["memo"][key] = ans
            else:
                st["repeat_hits"] = st.get("repeat_hits", 0) + 1
                if old != ans:
                    return Violation("C11", "E1", "%s:answer-depends-on-history" % what,
                                     "read-only %s answered differently on an unchanged world: %s then %s" %
                                     (what, short(old), short(ans)))
        return None

    def probes(self, c, P):
        if c.kobj.readonly:
            what = c.op.get("q") or c.op.get("f") or c.op["k"]
            bump(P, "ro:" + what + (":ok" if c.out.ok else ":raised"))
            if c.state.get("repeat_hits"):
                P["ro_repeat_compared"] = P.get("ro_repeat_compared", 0) + c.state.pop("repeat_hits")
            n = c.R.get("n")
            if n is not None and what in ("export_to_xml", "to_xml", "to_json", "validate_tree", "evaluate_tree"):
                sub = c.pre.subtree(n)
                if len(sub) > 200:
                    bump(P, "ro_on_corpus_document")
                for h in sub[:50]:
                    t = c.pre.cells[h][FI][2]
                    if isinstance(t, str) and any(ch in t for ch in "<&\"'"):
                        bump(P, "ro_hostile_text")
                        break


PROFILES = {}
for _p in (Edits, Namespaces, Registry, CopyP, ReadOnly):
    PROFILES[_p.prop] = _p()
