"""Evidence files: what a check actually covered, measured on this run."""
import json
import os

from . import bootstrap as B
from .profiles import PROFILES

REAL = ["metapype.model.node", "metapype.model.metapype_io", "metapype.model.mp_io",
        "metapype.eml.validate", "metapype.eml.references", "metapype.eml.export",
        "metapype.eml.evaluate", "metapype.eml.rule", "utils/convert.py:to_20210209 (extracted by ast)",
        "CPython uuid.uuid1 (pure-Python RFC 4122 path)"]
STUB = ["clock behind uuid1 (time.time_ns/time.time -> simulated clock)",
        "clock_seq PRNG (random.getrandbits -> seeded sub-PRNG)",
        "host id (uuid._node fixed)", "os.urandom (seeded byte stream)",
        "libuuid (uuid._generate_time_safe disabled)",
        "durable store (dict document -> JSON text owned by the simulator)",
        "logging sink (disabled)", "sys.stdout while graph() prints"]
ASSUME = [
    "Sampling, not enumeration: a clean batch is evidence, not proof.",
    "Interleaving is between whole API calls of logical sessions (the library has no threads, timers or I/O).",
    "uuid1 runs on CPython's pure-Python path with the simulated clock; libuuid is not exercised.",
    "uuid._last_timestamp survives a simulated restart (the interpreter is not restarted).",
    "The oracle is the specification in DESIGN.md section 5 applied to the observed pre-state (check, then adopt).",
]


def write(prop, tier, seed, total, nviol, workers, budget):
    prof = PROFILES[prop]
    probes = {k: v for k, v in sorted(total["probes"].items()) if not k.startswith("fault:")}
    faults = {k[6:]: v for k, v in sorted(total["probes"].items()) if k.startswith("fault:")}
    for ev, n in sorted(total["clock_events"].items()):
        faults["clock." + ev] = n
    wall = max(total["wall_s"], 1e-9)
    cov = {
        "evaluations": total["runs"],
        "distinct_nontrivial": total["distinct_nontrivial"],
        "rule": ("One evaluation = one simulated run = one seed: a swarm configuration and an operation/fault "
                 "sequence drawn from splitmix64(VERIF_SEED, property, run index), executed against the real "
                 "library with every step judged against the model. Distinct = distinct abstract trace "
                 "(session, op kind, sub-kind, ok/raised per step); non-trivial = at least one step of the "
                 "property's own operation kinds was judged."),
        "samples": total["samples"][:3],
        "steps": total["steps"],
        "runs_per_hour": int(total["runs"] / wall * 3600),
        "steps_per_second": int(total["steps"] / wall),
        "seeds": {"base": seed, "run_indices": [0, total["runs"] - 1],
                  "derivation": "splitmix64(splitmix64(base) folded with property id, index)"},
        "sim_time_s": total["covered_ns"] / 1e9,
        "clock_reads": total["clock_reads"],
        "faults_fired": faults,
        "fault_free_runs": total["fault_free_runs"],
        "probes": probes,
        "probes_at_zero": [p for p in getattr(prof, "expected_probes", ()) if not total["probes"].get(p)],
        "distinct_states": total["distinct_states"],
        "distinct_states_capped": total["states_capped"],
        "distinct_states_measure": "hash of (forest shape with names, registration flags, namespace-map sizes, alias partition of namespace dicts)",
        "distinct_interleavings": total["distinct_traces"],
        "new_states_curve": total["state_curve"][-20:],
        "judged_steps_by_op": dict(sorted(total["judged"].items())),
        "adopted_unjudged_steps": dict(sorted(total["unjudged"].items())),
        "skipped_ops": total["skipped"],
        "known_findings_met": total["known"],
        "components": {"real": REAL, "stub": STUB},
        "determinism": total.get("determinism"),
        "workers": workers, "budget_s": budget,
        "profile": prof.name, "design_ref": prof.design_ref,
        "repo": B.REPO, "repo_head": B.repo_head(),
    }
    if "sensitivity" in total:
        cov["sensitivity"] = total["sensitivity"]
    doc = {"property_id": prop, "tier": tier, "seed": seed, "level": "exploration", "coverage": cov,
           "assumptions": ASSUME + list(getattr(prof, "assumptions", ())), "wall_s": round(total["wall_s"], 2),
           "violations": nviol}
    d = os.path.join(B.VERIF, "evidence")
    os.makedirs(d, exist_ok=True)
    tmp = os.path.join(d, ".%s.json.tmp" % prop)
    with open(tmp, "w", encoding="ascii") as f:
        json.dump(doc, f, indent=1, default=str)
    os.replace(tmp, os.path.join(d, "%s.json" % prop))
