"""Batches of seeded runs over a process pool, evidence, exit codes."""
import concurrent.futures as cf
import faulthandler
import json
import multiprocessing
import os
import subprocess
import sys
import time

from . import bootstrap as B
from . import runner
from .profiles import PROFILES
from .seams import REAL_MONOTONIC as mono

VERIF = B.VERIF
STATE_CAP = 1_500_000
TRACE_CAP = 1_500_000


def load_known():
    path = os.path.join(VERIF, "known_findings.json")
    if not os.path.exists(path):
        return []
    with open(path, "r", encoding="utf-8") as f:
        doc = json.load(f)
    return doc.get("findings", [])


def known_keys(prop, findings):
    return tuple((f["property"], f["clause"], f["sig"]) for f in findings
                 if f["property"] == prop and f.get("status", "open") == "open")


def _merge(dst, src):
    for k, v in src.items():
        dst[k] = dst.get(k, 0) + v


def chunk(prop, base_seed, start, count, known, keep_samples):
    """Worker: runs indices [start, start+count)."""
    faulthandler.dump_traceback_later(600, exit=True)
    agg = {"runs": 0, "steps": 0, "skipped": 0, "judged": {}, "unjudged": {}, "probes": {}, "known": {},
           "states": set(), "traces": set(), "nontrivial_traces": set(), "clock_events": {},
           "covered_ns": 0, "clock_reads": 0, "violation": None, "samples": [], "start": start,
           "fault_free_runs": 0}
    maxprobe = ("two_ids_same_clock_reading", "clock_went_backwards_between_ids", "ro_repeat_compared")
    for i in range(start, start + count):
        r = runner.run_one(prop, base_seed, i, known)
        agg["runs"] += 1
        agg["steps"] += r.steps
        agg["skipped"] += r.skipped
        _merge(agg["judged"], r.judged)
        _merge(agg["unjudged"], r.unjudged)
        _merge(agg["probes"], r.probes)
        for k, v in r.known.items():
            kk = "|".join(k)
            agg["known"][kk] = agg["known"].get(kk, 0) + v
        agg["states"] |= r.states
        agg["traces"].add(r.trace_hash)
        if r.nontrivial:
            agg["nontrivial_traces"].add(r.trace_hash)
        _merge(agg["clock_events"], r.clock["events"])
        agg["covered_ns"] += r.clock["covered_ns"]
        agg["clock_reads"] += r.clock["reads"]
        if not r.cfg.get("faults"):
            agg["fault_free_runs"] += 1
        if keep_samples and len(agg["samples"]) < keep_samples and r.nontrivial:
            agg["samples"].append({"run_index": i, "seed": r.seed, "nsess": r.cfg["nsess"],
                                   "ops": r.ops[:40], "ops_total": len(r.ops)})
        if r.violation is not None:
            agg["violation"] = {"index": i, "seed": r.seed, "cfg": r.cfg, "ops": r.ops,
                                "v": r.violation.to_json()}
            break
    faulthandler.cancel_dump_traceback_later()
    return agg


class HarnessError(Exception):
    pass


def run_batch(prop, base_seed, budget_s, workers, known, max_runs=None, chunk_size=40):
    """Runs seeds 0,1,2,... until the wall budget is used.  Returns the
    aggregate and the violation with the smallest run index found, if any."""
    t0 = mono()
    ctx = multiprocessing.get_context("fork")
    total = {"runs": 0, "steps": 0, "skipped": 0, "judged": {}, "unjudged": {}, "probes": {}, "known": {},
             "clock_events": {}, "covered_ns": 0, "clock_reads": 0, "samples": [], "fault_free_runs": 0}
    states, traces, nontriv = set(), set(), set()
    curve = []
    violations = []
    next_start = 0
    last_mark = 0
    with cf.ProcessPoolExecutor(max_workers=workers, mp_context=ctx) as ex:
        pending = set()

        def submit():
            nonlocal next_start
            if max_runs is not None and next_start >= max_runs:
                return False
            n = chunk_size if max_runs is None else min(chunk_size, max_runs - next_start)
            pending.add(ex.submit(chunk, prop, base_seed, next_start, n, known,
                                  3 if next_start == 0 else 0))
            next_start += n
            return True

        for _ in range(workers * 2):
            if not submit():
                break
        hard_deadline = t0 + budget_s + 180
        while pending:
            done, pending_now = cf.wait(pending, timeout=5, return_when=cf.FIRST_COMPLETED)
            pending.clear()
            pending.update(pending_now)
            for f in done:
                if f.cancelled():
                    continue
                try:
                    a = f.result()
                except Exception as e:      # noqa: BLE001
                    raise HarnessError("worker failed: %r" % (e,))
                total["runs"] += a["runs"]
                total["steps"] += a["steps"]
                total["skipped"] += a["skipped"]
                total["covered_ns"] += a["covered_ns"]
                total["clock_reads"] += a["clock_reads"]
                total["fault_free_runs"] += a["fault_free_runs"]
                for k in ("judged", "unjudged", "known", "clock_events"):
                    _merge(total[k], a[k])
                for k, v in a["probes"].items():
                    total["probes"][k] = total["probes"].get(k, 0) + v
                if len(states) < STATE_CAP:
                    states |= a["states"]
                if len(traces) < TRACE_CAP:
                    traces |= a["traces"]
                    nontriv |= a["nontrivial_traces"]
                total["samples"].extend(a["samples"])
                if a["violation"] is not None:
                    violations.append(a["violation"])
                if total["runs"] - last_mark >= 1000:
                    curve.append([total["runs"], len(states)])
                    last_mark = total["runs"]
            now = mono()
            if now > hard_deadline:
                raise HarnessError("batch overran its wall budget by more than 180 s")
            if violations or now - t0 >= budget_s:
                for f in pending:
                    f.cancel()
                # let running chunks finish; they are short
                continue
            while len(pending) < workers * 2:
                if not submit():
                    break
    total["wall_s"] = mono() - t0
    total["distinct_states"] = len(states)
    total["distinct_traces"] = len(traces)
    total["distinct_nontrivial"] = len(nontriv)
    total["state_curve"] = curve
    total["states_capped"] = len(states) >= STATE_CAP
    violations.sort(key=lambda v: v["index"])
    return total, (violations[0] if violations else None)


def determinism_spot(prop, base_seed, n, known):
    """Same seeds twice: here and in a fresh interpreter under another
    PYTHONHASHSEED.  Returns (#seeds, mismatches)."""
    mine = []
    for i in range(n):
        r = runner.run_one(prop, base_seed, i, known, digest=True)
        mine.append(r.digest)
    env = dict(os.environ)
    env["PYTHONHASHSEED"] = "12345"
    env["VERIF_REEXEC"] = "1"
    code = ("import sys; sys.path.insert(0, %r)\n"
            "from sim import runner, batch\n"
            "k = batch.known_keys(%r, batch.load_known())\n"
            "print(' '.join(runner.run_one(%r, %d, i, k, digest=True).digest for i in range(%d)))\n"
            % (VERIF, prop, prop, base_seed, n))
    p = subprocess.run([sys.executable, "-c", code], capture_output=True, text=True, env=env, timeout=600)
    if p.returncode != 0:
        raise HarnessError("determinism subprocess failed: " + p.stderr[-2000:])
    other = p.stdout.split()
    mism = sum(1 for a, b in zip(mine, other) if a != b) + abs(len(mine) - len(other))
    return n, mism
