"""Profiles for the properties that need the EML layer or the durable store:
C06 persist, C15 prune, C16 expand."""
from . import bootstrap as B
from . import rulesview as RV
from . import emlops
from .emlops import prefix_inclusion, offenders
from .ops import KINDS
from .profiles import (Profile, Violation, check_exp, short, bump, ALL, PROFILES, to_handles, independence)
from .world import (CH, PA, NS, FI, RG, FIELD_NAMES, F_ID, F_NAME, F_CONTENT, F_TAIL, F_PREFIX, F_ATTRS, F_EXTRAS)

Node = B.Node
validate = B.validate
MetapypeRuleError = B.MetapypeRuleError


# ============================================================== C06 persist
class Persist(Profile):
    prop = "C06"
    name = "persist"
    design_ref = "DESIGN.md section 5, C06"
    keep = ("new", "add_child", "restart")
    own_kinds = frozenset(["restart"])
    fault_kinds = ("rm_ns", "replace_child", "import_xml")
    expected_probes = ("restart_json", "restart_legacy", "restart_upgrade", "restart_with_tail_extras_prefix",
                       "restart_with_namespaces", "restart_docs_compared", "restart_after_restart",
                       "restart_nonascii_text", "restart_multi_doc")

    def weights(self, cfg, rng):
        return {"new": 10, "add_child": 14, "restart": 7, "set_content": 4, "set_tail": 3, "set_prefix": 3,
                "add_attr": 4, "add_extras": 3, "attr_item": 1, "extras_item": 1, "rm_attr": 1,
                "add_ns": 6, "copy": 2, "remove_child": 2, "shift": 1, "set_name": 1,
                "delete": 0.5, "eml_seed": 0.7,
                "rm_ns": 1, "replace_child": 1, "import_xml": 0.5, "import_json": 0.7}

    def tune(self, cfg, rng):
        cfg["restart_modes"] = rng.choice([[1, 0, 0], [1, 0, 0], [2, 1, 1], [0, 1, 1]])
        cfg["universe"] = rng.choice([3, 5, 8, 12, 20, 40])
        cfg["eml_universe"] = 120
        cfg["world_cap"] = 500
        if rng.random() < 0.6:
            cfg["alphabets"] = sorted(set(cfg["alphabets"]) | {"unicode"})

    def start(self, state):
        state["restarts"] = 0

    def judge(self, c):
        if c.op["k"] != "restart":
            return None
        if not c.out.ok:
            return Violation("C06", "harness", "restart:harness", "restart raised %s" % short(c.out.exc))
        mode = c.op["mode"]
        pre, post = c.pre, c.post
        for rec in c.out.value:
            old = rec["old"]
            if not prefix_inclusion(pre, old):
                c.state["unmet"] = c.state.get("unmet", 0) + 1
                continue
            errs = (rec["save_error"], rec["load_error"], rec["resave_error"])
            if any(isinstance(e, (RecursionError, MemoryError)) for e in errs) and pre.height(old) >= 100:
                # the codec is recursive; a tree hundreds of levels deep exhausts the interpreter's
                # stack (each node costs several levels of JSON nesting).  Not a statement about
                # the codec's fidelity: counted, not judged.
                c.state["too_deep"] = c.state.get("too_deep", 0) + 1
                continue
            if rec["save_error"] is not None:
                return Violation("C06", "E1", "restart:%s:save-raised:%s" % (mode, type(rec["save_error"]).__name__),
                                 "serialising document h%d raised %s" % (old, short(rec["save_error"])))
            if rec["load_error"] is not None:
                return Violation("C06", "E1", "restart:%s:load-raised:%s" % (mode, type(rec["load_error"]).__name__),
                                 "loading the stored text of document h%d raised %s" % (old, short(rec["load_error"])))
            new = rec["new"]
            v = self._compare(c, mode, old, new)
            if v:
                return v
            if rec["resave_error"] is not None:
                return Violation("C06", "E3", "restart:%s:resave-raised" % mode,
                                 "re-serialising the loaded document raised %s" % short(rec["resave_error"]))
            if rec["text2"] != rec["text"]:
                return Violation("C06", "E3", "restart:%s:text-differs" % mode,
                                 "re-serialising the loaded document does not give the stored text",
                                 {"stored": short(rec["text"], 400), "again": short(rec["text2"], 400)})
            c.state["compared"] = c.state.get("compared", 0) + 1
        return None

    def _compare(self, c, mode, old, new):
        pre, post = c.pre, c.post
        if mode == "json":
            fset = (F_ID, F_NAME, F_CONTENT, F_TAIL, F_PREFIX, F_ATTRS, F_EXTRAS)
        else:
            fset = (F_ID, F_NAME, F_CONTENT, F_ATTRS)
        stack = [(old, new, None)]
        while stack:
            o, n, par = stack.pop()
            oc, nc = pre.cells[o], post.cells[n]
            clause = "E1" if mode == "json" else "E4"
            for fi in fset:
                if oc[FI][fi] != nc[FI][fi]:
                    return Violation("C06", clause, "restart:%s:field-differs:%s" % (mode, FIELD_NAMES[fi]),
                                     "after restart, %s of the node saved as h%d is %s, was %s" %
                                     (FIELD_NAMES[fi], o, short(nc[FI][fi]), short(oc[FI][fi])))
            if mode == "json" and oc[NS] != nc[NS]:
                return Violation("C06", "E1", "restart:json:field-differs:nsmap",
                                 "after restart, the namespace map of the node saved as h%d is %s, was %s" %
                                 (o, short(nc[NS]), short(oc[NS])))
            if mode == "upgrade":
                if nc[NS] != () or nc[FI][F_PREFIX] is not None or nc[FI][F_EXTRAS] != () or nc[FI][F_TAIL] is not None:
                    return Violation("C06", "E4", "restart:upgrade:namespace-data-not-empty",
                                     "an upgraded legacy node carries nsmap=%s prefix=%s extras=%s tail=%s" %
                                     (short(nc[NS]), short(nc[FI][F_PREFIX]), short(nc[FI][F_EXTRAS]), short(nc[FI][F_TAIL])))
            if len(oc[CH]) != len(nc[CH]) or any(not isinstance(x, int) for x in nc[CH]):
                return Violation("C06", clause, "restart:%s:children-differ" % mode,
                                 "after restart, the node saved as h%d has children %s, had %d" %
                                 (o, short(nc[CH]), len(oc[CH])))
            if nc[PA] != par:
                return Violation("C06", "E2", "restart:%s:parent-link" % mode,
                                 "after restart, node h%d (saved as h%d) has parent link %s, its lister is %s" %
                                 (n, o, short(nc[PA]), short(par)))
            if not nc[RG]:
                return Violation("C06", "E2", "restart:%s:unregistered" % mode,
                                 "after restart, node h%d (saved as h%d) is not retrievable by its id" % (n, o))
            stack.extend((a, b, n) for a, b in reversed(list(zip(oc[CH], nc[CH]))))
        return None

    def probes(self, c, P):
        if c.op["k"] != "restart" or not c.out.ok:
            return
        st = c.state
        bump(P, "restart_" + c.op["mode"])
        bump(P, "fault:restart" if c.op["mode"] == "json" else "fault:upgrade_restart")
        if st["restarts"]:
            bump(P, "restart_after_restart")
        st["restarts"] += 1
        recs = c.out.value
        if len(recs) > 1:
            bump(P, "restart_multi_doc")
        P["restart_docs_compared"] = P.get("restart_docs_compared", 0) + st.pop("compared", 0)
        P["precondition_unmet_docs"] = P.get("precondition_unmet_docs", 0) + st.pop("unmet", 0)
        P["docs_too_deep_for_the_interpreter_stack"] = P.get("docs_too_deep_for_the_interpreter_stack", 0) + st.pop("too_deep", 0)
        pre = c.pre
        flags = set()
        for rec in recs:
            for h in pre.subtree(rec["old"]):
                cell = pre.cells[h]
                f = cell[FI]
                if f[F_TAIL] is not None and f[F_EXTRAS] and f[F_PREFIX] is not None:
                    flags.add("restart_with_tail_extras_prefix")
                if cell[NS]:
                    flags.add("restart_with_namespaces")
                for x in (f[F_CONTENT], f[F_TAIL]):
                    if isinstance(x, str) and any(ord(ch) > 127 for ch in x):
                        flags.add("restart_nonascii_text")
                if len(cell[CH]) >= 2:
                    flags.add("restart_with_siblings")
            if len(pre.subtree(rec["old"])) >= 250:
                flags.add("restart_large_document")
        for fl in sorted(flags):
            bump(P, fl)


# ============================================================== C16 expand
def analyse_refs(pre, root):
    """Reads the reference structure of a document off the snapshot."""
    sub = pre.subtree(root)
    refs = [h for h in sub if pre.name(h) == "references" and h != root]
    ids = {}
    for h in sub:
        for k, v in pre.cells[h][FI][F_ATTRS]:
            if k == "id":
                ids.setdefault(v, []).append(h)
    dup = sorted([k for k, v in ids.items() if len(v) > 1], key=repr)
    dangling = [r for r in refs if pre.cells[r][FI][F_CONTENT] not in ids]
    return sub, refs, ids, dup, dangling


def precondition_c16(pre, root, refs, ids):
    """Every references value names exactly one element id; the referenced
    element is governed by the same rule as the referencing one and holds no
    references itself."""
    for r in refs:
        val = pre.cells[r][FI][F_CONTENT]
        tg = ids.get(val, [])
        if len(tg) != 1:
            return False
        t = tg[0]
        p = pre.lister(r)
        if p is None or t == p:
            return False
        rp, rt = RV.rule_of(pre.name(p)), RV.rule_of(pre.name(t))
        if rp is None or rp != rt:
            return False
        if any(pre.name(d) == "references" for d in pre.subtree(t)[1:]):
            return False
        if p in pre.subtree(t) or t in pre.subtree(p):
            return False
        if pre.cells[r][CH]:
            return False
    return True


TREE = (CH, PA, NS, FI)      # C16 speaks about the tree; what the registry holds is C14's business


class ExpandP(Profile):
    prop = "C16"
    name = "expand"
    design_ref = "DESIGN.md section 5, C16"
    keep = ("eml_seed", "expand")
    own_kinds = frozenset(["expand"])
    fault_kinds = ()
    expected_probes = ("expand_ok", "expand_with_trailing_role", "expand_refs_ge2", "expand_ref_before_target",
                       "expand_while_json_twin_alive",
                       "fault:dangling_ref", "fault:dup_id", "fault:empty_ref", "dangling_after_k_resolved",
                       "expand_valid_before", "edit_after_expand")

    def weights(self, cfg, rng):
        return {"eml_seed": 10, "expand": 14, "set_content": 4, "add_attr": 2, "rm_attr": 1, "add_child": 2,
                "new": 2, "remove_child": 2, "shift": 1, "add_ns": rng.choice([1, 1, 5]), "attr_item": 1, "copy": 0.5,
                "rm_ns": rng.choice([0.5, 3]), "set_nsmap": 0.7,
                "ro": 1, "restart": 0.3, "delete": 0.3, "json_twin": 1.5, "import_xml": 0.8}

    def tune(self, cfg, rng):
        cfg["seed_mode"] = "refs"
        cfg["nsess"] = rng.choice([1, 1, 2, 3])
        cfg["eml_universe"] = rng.choice([60, 150, 400])
        cfg["names"] = sorted(set(rng.sample(["references", "role", "individualName", "surName", "bogus",
                                              "organizationName", "contact"], 3)))
        cfg["steps"] = min(cfg["steps"], rng.choice([6, 12, 25, 60]))

    def start(self, state):
        state["pairs"] = []

    def judge(self, c):
        k = c.op["k"]
        if k != "expand":
            if k in ("restart", "json_twin"):
                c.state["pairs"] = []
                return None
            return independence(c, "C16", c.state["pairs"], "E4", aspects=TREE)
        pre, post, root = c.pre, c.post, c.R["n"]
        sub, refs, ids, dup, dangling = analyse_refs(pre, root)
        c.state["last"] = None
        if not self._tree_in_scope(pre, sub):
            # the tree holds nodes that were discarded from the registry before (for
            # instance a references node of an earlier expansion, attached again), or two
            # nodes with one id (a node moved over from its JSON twin): outside every
            # quantifier of the statement; adopt.  (A node whose id the registry holds for
            # a twin loaded from JSON is not discarded.)
            c.exp.judged = False
            return None
        if dup or dangling:
            # E5: atomic failure
            what = "dup-id" if dup else ("empty-ref" if any(pre.cells[r][FI][F_CONTENT] is None for r in dangling)
                                         else "dangling-ref")
            c.state["last"] = ("fault", what, len(refs), dangling, refs)
            if c.out.ok or not isinstance(c.out.exc, ValueError):
                return Violation("C16", "E5", "expand:%s:no-ValueError:%s" % (what, c.out.brief()),
                                 "expansion of a tree with %s did not raise ValueError (%s)" % (what, c.out.brief()))
            v = check_exp("C16", "expand", TREE, _EMPTY, pre, post)
            if v:
                v.clause = "E5"
                v.sig = "expand:%s:not-atomic" % what
                v.msg = "expansion raised ValueError but the tree was not left as it was: " + v.msg
                return v
            return None
        if not precondition_c16(pre, root, refs, ids):
            c.exp.judged = False
            return None
        val = c.out.value if c.out.ok else None
        if not c.out.ok:
            return Violation("C16", "E1", "expand:raised:%s" % type(c.out.exc).__name__,
                             "expansion of a fully resolvable tree raised %s" % short(c.out.exc))
        # E2: everything except the referencing parents' child lists and the references nodes is unchanged
        parents = {}
        for r in refs:
            parents.setdefault(pre.lister(r), []).append(r)
        e = emlops.Exp()
        for p in parents:
            e.adopt(p, CH)
        for r in refs:
            e.adopt(r, PA)
        v = check_exp("C16", "expand", TREE, e, pre, post)
        if v:
            v.clause = "E2"
            v.sig = "expand:changes-other-nodes:%s" % v.detail.get("aspect")
            return v
        # E1: copies in place of each references node
        newpairs = []
        trailing = False
        for p, rs in parents.items():
            want = []
            for ch in pre.cells[p][CH]:
                if ch in rs:
                    t = ids[pre.cells[ch][FI][F_CONTENT]][0]
                    want.extend(("copy", s) for s in pre.cells[t][CH])
                else:
                    want.append(("same", ch))
            got = post.cells[p][CH]
            if pre.cells[p][CH][-1] not in rs:
                trailing = True
            if len(got) != len(want):
                return Violation("C16", "E1", "expand:child-count",
                                 "referencing element h%d has %d children after expansion, %d expected" %
                                 (p, len(got), len(want)), {"got": short(got), "want": short(want)})
            for g, (tag, s) in zip(got, want):
                if tag == "same":
                    if g != s:
                        return Violation("C16", "E1", "expand:position",
                                         "in referencing element h%d, existing child h%d is not where it was relative "
                                         "to the expansion (children now %s)" % (p, s, short(got)),
                                         {"got": short(got), "want": short(want)})
                else:
                    if not isinstance(g, int) or g < c.nh:
                        return Violation("C16", "E1", "expand:position" if g in pre.cells[p][CH] else "expand:not-a-copy",
                                         "in referencing element h%d, position of a copy of h%d holds %s "
                                         "(children now %s)" % (p, s, short(g), short(got)),
                                         {"got": short(got), "want": short(want)})
                    v = self._same_subtree(c, s, g, p)
                    if v:
                        return v
                    newpairs.append([set(pre.subtree(s)), set(post.subtree(g)), frozenset(post.subtree(g)), set()])
        for r in refs:
            if r in post.subtree(root):
                return Violation("C16", "E1", "expand:references-left", "references node h%d is still in the tree" % r)
        # E3: validity is preserved.  "A tree that validated before" says nothing about what sits
        # below a metadata element, which validation does not look at; a referenced element kept
        # there may be invalid while the tree validates, and copying it out carries that along.
        # The clause is judged when every referenced element was itself covered by the validation.
        opaque = any(any(pre.name(a) == "metadata" for a in pre.ancestors(ids[pre.cells[r][FI][F_CONTENT]][0]))
                     for r in refs)
        if opaque:
            c.state["e3_skipped_target_in_metadata"] = c.state.get("e3_skipped_target_in_metadata", 0) + 1
        if not opaque and isinstance(val, dict) and val.get("valid_before") and not val.get("valid_after"):
            return Violation("C16", "E3", "expand:invalidates-tree",
                             "the tree validated before expansion and does not validate after: %s" % short(val.get("after_error")))
        c.state["pairs"].extend(newpairs)
        del c.state["pairs"][:-8]
        c.state["last"] = ("ok", len(refs), trailing, refs, ids, isinstance(val, dict) and val.get("valid_before"))
        return None

    def _same_subtree(self, c, src, cp, par):
        pre, post = c.pre, c.post
        stack = [(src, cp, par)]
        while stack:
            s, n, p = stack.pop()
            if not isinstance(n, int) or n < c.nh:
                return Violation("C16", "E1", "expand:not-a-copy",
                                 "expansion placed %s, which is not a new node, for source h%d" % (short(n), s))
            sc, nc = pre.cells[s], post.cells[n]
            for fi in range(1, 7):
                if sc[FI][fi] != nc[FI][fi]:
                    return Violation("C16", "E1", "expand:copy-differs:%s" % FIELD_NAMES[fi],
                                     "copy h%d of h%d differs in %s: %s vs %s" %
                                     (n, s, FIELD_NAMES[fi], short(nc[FI][fi]), short(sc[FI][fi])))
            sn, nn = dict(sc[NS]), dict(nc[NS])
            # Attached below the referencing element, the top-level copy gains the prefixes of
            # that element which it lacks (its own bindings win) and pushes exactly those down,
            # where they may override a descendant's own binding (unspecified, see C13 E3).
            # Every other prefix, on every copied node, is as on the source.
            if s == src:
                dn = dict(pre.cells[par][NS])
                gained = set(k for k in dn if k not in sn)
            if {k: v for k, v in sn.items() if k not in gained} != {k: v for k, v in nn.items() if k not in gained}:
                return Violation("C16", "E1", "expand:copy-differs:nsmap",
                                 "copy h%d of h%d differs in namespace bindings beyond what attaching it below "
                                 "h%d brings: %s vs %s" % (n, s, par, short(nc[NS]), short(sc[NS])))
            if s == src and any(nn.get(k) != dn[k] for k in gained):
                return Violation("C16", "E1", "expand:copy-differs:nsmap",
                                 "copy h%d does not see the referencing element's bindings: %s vs %s" %
                                 (n, short(nc[NS]), short(pre.cells[par][NS])))
            if len(sc[CH]) != len(nc[CH]):
                return Violation("C16", "E1", "expand:copy-differs:children",
                                 "copy h%d of h%d has %d children, source has %d" % (n, s, len(nc[CH]), len(sc[CH])))
            if nc[PA] != p:
                return Violation("C16", "E1", "expand:copy-parent-link",
                                 "copy h%d has parent link %s, lister is h%s" % (n, short(nc[PA]), p))
            stack.extend((a, b, n) for a, b in reversed(list(zip(sc[CH], nc[CH]))))
        return None

    def hang_is_judged(self, pre, R, op, kobj):
        sub, refs, ids, dup, dangling = analyse_refs(pre, R["n"])
        if not self._tree_in_scope(pre, sub):
            return False
        return bool(dup or dangling) or precondition_c16(pre, R["n"], refs, ids)

    @staticmethod
    def _tree_in_scope(pre, sub):
        nids = [pre.cells[h][FI][F_ID] for h in sub]
        # (until fix 603eeb2 a tree holding a node discarded from the registry earlier was out of
        # scope as well, because expansion could not discard it a second time)
        return len(set(nids)) == len(nids)

    def probes(self, c, P):
        k = c.op["k"]
        if k == "expand":
            last = c.state.get("last")
            if last is None:
                bump(P, "expand_precondition_unmet")
                return
            if last[0] == "fault":
                _, what, nrefs, dangling, refs = last
                bump(P, "fault:" + {"dup-id": "dup_id", "empty-ref": "empty_ref", "dangling-ref": "dangling_ref"}[what])
                if what != "dup-id" and dangling:
                    kpos = refs.index(dangling[0])
                    if kpos >= 1:
                        bump(P, "dangling_after_k_resolved")
                    else:
                        bump(P, "dangling_first")
            else:
                _, nrefs, trailing, refs, ids, vb = last
                bump(P, "expand_ok")
                if nrefs and any(not c.pre.cells[h][RG] for h in c.pre.subtree(c.R["n"])):
                    bump(P, "expand_while_json_twin_alive")
                if c.state.pop("e3_skipped_target_in_metadata", 0):
                    bump(P, "expand_target_below_metadata_validity_not_judged")
                if nrefs == 0:
                    bump(P, "expand_no_refs")
                if nrefs >= 2:
                    bump(P, "expand_refs_ge2")
                if trailing and nrefs:
                    bump(P, "expand_with_trailing_role")
                if vb:
                    bump(P, "expand_valid_before")
                for r in refs:
                    t = ids[c.pre.cells[r][FI][F_CONTENT]][0]
                    if r < t:
                        bump(P, "expand_ref_before_target")
                        break
        elif c.state["pairs"] and KINDS[k].mutating:
            touched = set(x for x in c.R.values() if isinstance(x, int))
            for (oset, cset, _b, _d) in c.state["pairs"]:
                if touched & (oset | cset):
                    bump(P, "edit_after_expand")
                    break


_EMPTY = emlops.Exp()


# Until fix 603eeb2 prune could not discard a subtree whose root had been unregistered before
# (the generator re-attaches nodes an earlier prune discarded), and such trees were adopted
# unjudged.  Since that repair they are judged like any other tree.
LEGACY_PRECONDITION = False


# ============================================================== C15 prune
class PruneP(Profile):
    prop = "C15"
    name = "prune"
    design_ref = "DESIGN.md section 5, C15"
    keep = ("eml_seed", "prune", "new", "add_child")
    own_kinds = frozenset(["prune"])
    fault_kinds = ()
    expected_probes = ("prune_nonstrict", "prune_strict", "fault:unknown_node", "fault:misplaced_node",
                       "prune_parent_also_content_invalid", "prune_strict_unknown_nested", "prune_inside_metadata_kept",
                       "prune_second_time", "prune_clean_tree", "prune_strict_removed_invalid", "prune_subtree_root_listed",
                       "prune_offender_nested_in_offender")

    def weights(self, cfg, rng):
        return {"eml_seed": 8, "import_xml": 1, "prune": 14, "new": 10, "add_child": 12, "set_content": 4,
                "add_attr": 2, "rm_attr": 1, "remove_child": 3, "set_name": 1.5, "shift": 0.5, "copy": 0.5,
                "replace_child": 0.5, "delete": 0.3, "ro": 0.5, "import_json": 0.5}

    def tune(self, cfg, rng):
        cfg["seed_mode"] = rng.choice(["mixed", "mixed", "fragment"])
        cfg["nsess"] = rng.choice([1, 1, 2, 3])
        cfg["eml_universe"] = rng.choice([40, 120, 400])
        cfg["universe"] = cfg["eml_universe"]
        from .emlseeds import UNKNOWN_NAMES, KNOWN_FOR_MISPLACING
        cfg["names"] = sorted(rng.sample(UNKNOWN_NAMES, rng.choice([1, 2])) +
                              rng.sample(KNOWN_FOR_MISPLACING, rng.choice([2, 4, 6])))
        cfg["p_strict"] = rng.choice([0.0, 0.5, 0.5, 1.0])
        # names that some rule lists although no rule is mapped to them go where that rule applies
        cfg["plant_affinity"] = {k: list(v) for k, v in RV.LISTED_UNKNOWN.items()}
        cfg["steps"] = min(cfg["steps"], rng.choice([8, 15, 30, 80]))
        if not cfg["faults"]:
            # fault-free half: only whole seed documents, no planted corruption
            for k in ("new", "add_child", "set_content", "add_attr", "rm_attr", "remove_child", "set_name",
                      "replace_child", "shift"):
                cfg["weights"].pop(k, None)

    def start(self, state):
        state["epoch"] = 0
        state["last_prune"] = None

    def judge(self, c):
        k = c.op["k"]
        st = c.state
        if k != "prune":
            if KINDS[k].mutating:
                st["epoch"] += 1
            return None
        pre, post, n, strict = c.pre, c.post, c.R["n"], c.op["strict"]
        mode = "strict" if strict else "nonstrict"
        st["info"] = None
        pre_sub = pre.subtree(n)
        if LEGACY_PRECONDITION and any(not pre.cells[h][RG] for h in pre_sub):
            c.exp.judged = False
            st["last_prune"] = None
            return None
        # E1 never raises
        if not c.out.ok:
            return Violation("C15", "E1", "prune:%s:raised:%s" % (mode, type(c.out.exc).__name__),
                             "prune(strict=%s) raised %s" % (strict, short(c.out.exc)))
        off, kept_model = offenders(pre, n)
        post_sub = post.subtree(n)
        post_set = set(post_sub)
        gone = [h for h in pre_sub if h not in post_set]
        # F1 + E4 + E6: nothing outside the pruned subtree changes; inside, only child lists of kept
        # nodes may shrink and removed nodes are free
        e = emlops.Exp()
        for h in pre_sub:
            if h in post_set:
                e.adopt(h, CH)
            else:
                e.adopt(h, CH, PA, RG)
        v = check_exp("C15", "prune", ALL, e, pre, post)
        if v:
            h = v.detail["handle"]
            inside = h in set(pre_sub)
            v.clause = "E4" if inside else "F1"
            v.sig = "prune:%s:%s:%s" % (mode, "kept-node-changed" if inside else "other-tree-changed", v.detail.get("aspect"))
            return v
        if any(h >= c.nh for h in post_sub):
            return Violation("C15", "E4", "prune:%s:new-nodes" % mode, "prune put new nodes into the tree")
        for h in post_sub:
            a, b = pre.cells[h][CH], post.cells[h][CH]
            it = iter(a)
            if not all(x in it for x in b):
                return Violation("C15", "E4", "prune:%s:order-changed" % mode,
                                 "children of kept node h%d are %s, were %s: not a subsequence" % (h, short(b), short(a)))
        # E6 metadata content is opaque
        for h in pre_sub:
            if pre.name(h) == "metadata" and h in post_set:
                for d in pre.subtree(h)[1:]:
                    if d not in post_set:
                        return Violation("C15", "E6", "prune:%s:removed-metadata-content" % mode,
                                         "node h%d below a metadata element was removed" % d)
        # E2 no offender remains
        for o in off:
            if o in post_set:
                nm = pre.name(o)
                why = "unknown" if not RV.known(nm) else "disallowed"
                par = pre.lister(o)
                sigx = ""
                if par is not None and par in post_set:
                    sigx = self._parent_state(c, par)
                return Violation("C15", "E2", "prune:%s:offender-kept:%s%s" % (mode, why, sigx),
                                 "node h%d (%s, %s under %s) is still in the tree after pruning" %
                                 (o, nm, why, pre.name(par) if par is not None else None),
                                 {"offender": o, "name": nm})
        # exactness: every removed maximal root is an offender
        gone_set = set(gone)
        roots = [h for h in gone if pre.lister(h) not in gone_set]
        offset = set(off)
        if not strict:
            for r in roots:
                if r not in offset:
                    return Violation("C15", "E4", "prune:nonstrict:removed-non-offender",
                                     "node h%d (%s) was removed although it is known and allowed under %s" %
                                     (r, pre.name(r), pre.name(pre.lister(r))))
        else:
            for r in roots:
                if r in offset:
                    continue
                ok = True
                try:
                    validate.node(c.W.node(r))
                except MetapypeRuleError:
                    ok = False
                except Exception:       # noqa: BLE001  single-node validation itself misbehaves: not prune's fault
                    ok = False
                if ok:
                    return Violation("C15", "E4", "prune:strict:removed-valid-node",
                                     "node h%d (%s) was removed although it is allowed and passes single-node validation" %
                                     (r, pre.name(r)))
            # E3 every remaining non-root node outside metadata content validates
            stack = [n]
            while stack:
                x = stack.pop()
                if post.name(x) == "metadata":
                    continue
                for ch in post.cells[x][CH]:
                    stack.append(ch)
                if x == n:
                    continue
                try:
                    validate.node(c.W.node(x))
                except MetapypeRuleError as ex:
                    return Violation("C15", "E3", "prune:strict:invalid-node-kept:%s" % type(ex).__name__,
                                     "after strict pruning node h%d (%s) fails single-node validation: %s" %
                                     (x, post.name(x), short(ex)))
                except Exception:       # noqa: BLE001  C04's business
                    pass
        # E5 the returned list
        lst = c.out.value["pruned"]
        st["parent_also"] = c.out.value["parent_also"]
        if not isinstance(lst, list):
            return Violation("C15", "E5", "prune:%s:return-type" % mode, "prune returned %s" % short(lst))
        named = []
        for ent in lst:
            if not (isinstance(ent, tuple) and len(ent) == 2 and isinstance(ent[0], Node) and isinstance(ent[1], str)):
                return Violation("C15", "E5", "prune:%s:entry-shape" % mode, "entry %s is not (node, reason)" % short(ent))
            named.append(c.W.h_of.get(id(ent[0]), -1))
        if len(set(named)) != len(named):
            return Violation("C15", "E5", "prune:%s:listed-twice" % mode, "a node is listed twice: %s" % short(named))
        for h in named:
            if h not in gone_set:
                return Violation("C15", "E5", "prune:%s:listed-but-kept" % mode,
                                 "h%d is in the returned list but still in the tree (or never was)" % h)
        for r in roots:
            if r not in named:
                return Violation("C15", "E5", "prune:%s:removed-but-unlisted" % mode,
                                 "removed subtree root h%d (%s) is not in the returned list" % (r, pre.name(r)))
        for h in named:
            if h not in roots:
                # listed node inside another removed subtree: it must at least have been detached itself
                par = pre.lister(h)
                if par is not None and h in post.cells[par][CH]:
                    return Violation("C15", "E5", "prune:%s:listed-not-detached" % mode,
                                     "h%d is listed as pruned but its parent still lists it" % h)
        # E7 registry
        for h in gone:
            if post.cells[h][RG]:
                return Violation("C15", "E7", "prune:%s:removed-still-registered" % mode,
                                 "removed node h%d is still registered" % h)
        for h in post_sub:
            if pre.cells[h][RG] and not post.cells[h][RG]:
                return Violation("C15", "E7", "prune:%s:kept-unregistered" % mode,
                                 "kept node h%d lost its registration" % h)
        # E8 second time removes nothing
        lp = st["last_prune"]
        if lp is not None and lp == (n, strict, st["epoch"]):
            st["second"] = True
            if lst or gone:
                return Violation("C15", "E8", "prune:%s:second-prune-removes" % mode,
                                 "pruning a second time removed %s" % short(named))
        st["last_prune"] = (n, strict, st["epoch"])
        st["info"] = (off, roots, named, pre_sub)
        return None

    def _parent_state(self, c, par):
        """Signature detail: does the parent also fail for another reason?"""
        try:
            node = c.W.node(par)
            errs = []
            validate.node(node, errs)
            codes = sorted(set(str(e[0]).split(".")[-1] for e in errs))
            other = [x for x in codes if x != "CHILD_NOT_ALLOWED"]
            return ":parent-also-" + "+".join(other) if other else ""
        except Exception:       # noqa: BLE001
            return ""

    def hang_is_judged(self, pre, R, op, kobj):
        return not LEGACY_PRECONDITION or all(pre.cells[h][RG] for h in pre.subtree(R["n"]))

    def probes(self, c, P):
        if c.op["k"] != "prune":
            return
        if not c.exp.judged:
            bump(P, "prune_tree_with_unregistered_nodes")
            return
        strict = c.op["strict"]
        bump(P, "prune_strict" if strict else "prune_nonstrict")
        pre, n = c.pre, c.R["n"]
        if pre.is_listed(n):
            bump(P, "prune_subtree_root_listed")
        off, _ = offenders(pre, n)
        sub = pre.subtree(n)
        for o in off:
            nm = pre.name(o)
            bump(P, "fault:unknown_node" if not RV.known(nm) else "fault:misplaced_node")
            par = pre.lister(o)
            pc = pre.cells[par]
            if strict and not RV.known(nm) and pre.lister(par) is not None and par != n:
                bump(P, "prune_strict_unknown_nested")
            # parent also invalid for another reason?
            if c.state.get("pre_invalid") is None:
                pass
            if any((not RV.known(pre.name(d))) or True for d in pre.subtree(o)[1:]) and len(pre.subtree(o)) > 1:
                bump(P, "prune_offender_nested_in_offender")
        if not off:
            bump(P, "prune_clean_tree")
        if any(pre.name(h) == "metadata" and len(pre.subtree(h)) > 1 for h in sub):
            bump(P, "prune_inside_metadata_kept")
        if c.state.pop("second", False):
            bump(P, "prune_second_time")
        info = c.state.get("info")
        if info:
            off, roots, named, _ = info
            if strict and any(r not in set(off) for r in roots):
                bump(P, "prune_strict_removed_invalid")
        pa = c.state.pop("parent_also", 0)
        if pa:
            bump(P, "prune_parent_also_content_invalid", pa)


for _p in (Persist, ExpandP, PruneP):
    PROFILES[_p.prop] = _p()
