"""Imports the code under test from the current working tree of the repository.

VERIF_REPO (default /repo) names the tree; the registered checks never set it,
it exists so that the sensitivity self-test can point the same machinery at a
scratch copy carrying a mutant.
"""
import ast
import logging
import os
import sys

REPO = os.path.realpath(os.environ.get("VERIF_REPO", "/repo"))
SRC = os.path.join(REPO, "src")
VERIF = os.path.dirname(os.path.dirname(os.path.realpath(__file__)))

for p in list(sys.path):
    # an editable install may already point at /repo/src; make ours win
    if os.path.realpath(p or ".") == SRC:
        sys.path.remove(p)
sys.path.insert(0, SRC)
for m in [m for m in sys.modules if m == "metapype" or m.startswith("metapype.")]:
    del sys.modules[m]

logging.disable(logging.CRITICAL)

# Import the library under a frozen boot clock and a fixed host id, on CPython's pure-Python
# uuid1 path: whatever it computes at import time (a module-level uuid, a timestamp) is then
# the same in every interpreter, like everything a run does later under the simulated clock.
import random as _random  # noqa: E402
import time as _time  # noqa: E402
import uuid as _uuid  # noqa: E402

_BOOT = {"gts": _uuid._generate_time_safe, "uc": getattr(_uuid, "_UuidCreate", None), "node": getattr(_uuid, "_node", None),
         "time_ns": _time.time_ns, "time": _time.time, "grb": _random.getrandbits, "last": _uuid._last_timestamp}
_uuid._generate_time_safe = None
if hasattr(_uuid, "_UuidCreate"):
    _uuid._UuidCreate = None
_uuid._node = 0x02005E10A0B1
_uuid._last_timestamp = None
_boot_now = [1_600_000_000 * 10**9]


def _boot_time_ns():
    _boot_now[0] += 1000
    return _boot_now[0]


_boot_rng = _random.Random(0xB007)
_time.time_ns = _boot_time_ns
_time.time = lambda: _boot_time_ns() / 1e9
_random.getrandbits = _boot_rng.getrandbits

import metapype  # noqa: E402
from metapype.model import node as node_mod  # noqa: E402
from metapype.model import metapype_io, mp_io  # noqa: E402
from metapype.eml import validate, references, export, evaluate, rule, names  # noqa: E402
from metapype.eml.exceptions import MetapypeRuleError  # noqa: E402

_time.time_ns, _time.time, _random.getrandbits = _BOOT["time_ns"], _BOOT["time"], _BOOT["grb"]
_uuid._generate_time_safe, _uuid._node, _uuid._last_timestamp = _BOOT["gts"], _BOOT["node"], _BOOT["last"]
if hasattr(_uuid, "_UuidCreate"):
    _uuid._UuidCreate = _BOOT["uc"]

if not os.path.realpath(metapype.__file__).startswith(SRC + os.sep):
    raise RuntimeError(
        f"metapype imported from {metapype.__file__}, expected under {SRC}")

Node = node_mod.Node
Shift = node_mod.Shift


def _extract_converter():
    """to_20210209 taken from utils/convert.py by ast: importing that file would create a
    log file inside the repository (daiquiri.setup at module level).  The module's import
    statements, its undecorated functions and its constant assignments are executed; calls
    at module level and the click command are not.  `logger` is a silent stand-in."""
    path = os.path.join(REPO, "utils", "convert.py")
    with open(path, "r", encoding="utf-8") as f:
        src = f.read()
    mod = ast.parse(src, path)
    body = []
    for item in mod.body:
        if isinstance(item, (ast.Import, ast.ImportFrom)):
            body.append(item)
        elif isinstance(item, (ast.FunctionDef, ast.ClassDef)) and not item.decorator_list:
            body.append(item)
        elif isinstance(item, ast.Assign) and isinstance(item.value, ast.Constant):
            body.append(item)
    ns = {"__name__": "convert_extracted", "logger": logging.getLogger("convert_extracted")}
    try:
        exec(compile(ast.Module(body=body, type_ignores=[]), path, "exec"), ns)
    except ImportError:
        # an import the sandbox lacks: fall back to the functions alone
        ns = {"__name__": "convert_extracted", "logger": logging.getLogger("convert_extracted")}
        only = [b for b in body if isinstance(b, (ast.FunctionDef, ast.ClassDef))]
        exec(compile(ast.Module(body=only, type_ignores=[]), path, "exec"), ns)
    if "to_20210209" not in ns:
        raise RuntimeError("to_20210209 not found in utils/convert.py")
    return ns["to_20210209"]


to_20210209 = _extract_converter()


def repo_head():
    import subprocess
    try:
        out = subprocess.run(["git", "-C", REPO, "rev-parse", "HEAD"],
                             capture_output=True, text=True, timeout=20)
        head = out.stdout.strip()
        st = subprocess.run(["git", "-C", REPO, "status", "--porcelain", "--", "src", "utils"],
                            capture_output=True, text=True, timeout=20)
        return head + ("+dirty" if st.stdout.strip() else "")
    except Exception:
        return "unknown"
