"""The seams the simulator owns: clock, PRNG and host identity behind uuid1,
os.urandom (uuid4), and the leftovers of earlier runs (Node.store,
uuid._last_timestamp)."""
import os
import random
import time
import uuid

from . import bootstrap as B

REAL_MONOTONIC = time.monotonic
REAL_TIME = time.time
_REAL = {
    "time_ns": time.time_ns, "time": time.time,
    "getrandbits": random.getrandbits, "urandom": os.urandom,
    "gts": uuid._generate_time_safe, "uc": getattr(uuid, "_UuidCreate", None),
    "node": getattr(uuid, "_node", None),
}

EPOCH_NS = 1_700_000_000 * 10**9
HOST = 0x02005E10A0B1  # locally administered, fixed


class Clock:
    """Simulated clock. Readings are taken only by uuid1 through time.time_ns."""

    def __init__(self, seed):
        self.now = EPOCH_NS
        self.start = EPOCH_NS
        self.covered = 0          # sum of |dt| of all clock events
        self.freeze_left = 0
        self.res = 1              # ns
        self.reads = 0
        self.readings = []        # last few readings, for probes
        self.rng = random.Random(seed ^ 0x5EED5EED)
        self.urng = random.Random(seed ^ 0x0BADF00D)
        self.events = {}
        self.same_reading = 0
        self.backwards = 0
        self._last = None

    # --- what the code under test sees
    def time_ns(self):
        self.reads += 1
        if self.freeze_left > 0:
            self.freeze_left -= 1
        else:
            self.now += 137       # a call costs a little time
        r = (self.now // self.res) * self.res
        if self._last is not None:
            if r == self._last:
                self.same_reading += 1
            elif r < self._last:
                self.backwards += 1
        self._last = r
        return r

    def time(self):
        return self.time_ns() / 1e9

    def getrandbits(self, k):
        return self.rng.getrandbits(k)

    def urandom(self, n):
        return bytes(self.urng.getrandbits(8) for _ in range(n))

    # --- scheduler events
    def event(self, ev, arg):
        self.events[ev] = self.events.get(ev, 0) + 1
        if ev == "tick":
            self.now += arg
            self.covered += arg
        elif ev == "freeze":
            self.freeze_left = arg
        elif ev == "coarse":
            self.res = arg
        elif ev == "back":
            self.now -= arg
            self.covered += arg
        elif ev == "fwd":
            self.now += arg
            self.covered += arg
        else:
            raise ValueError(ev)


def install(clock):
    uuid._generate_time_safe = None
    if hasattr(uuid, "_UuidCreate"):
        uuid._UuidCreate = None
    uuid._node = HOST
    uuid._last_timestamp = None
    time.time_ns = clock.time_ns
    time.time = clock.time
    random.getrandbits = clock.getrandbits
    os.urandom = clock.urandom
    B.Node.store.clear()


def uninstall():
    time.time_ns = _REAL["time_ns"]
    time.time = _REAL["time"]
    random.getrandbits = _REAL["getrandbits"]
    os.urandom = _REAL["urandom"]
    uuid._generate_time_safe = _REAL["gts"]
    if hasattr(uuid, "_UuidCreate"):
        uuid._UuidCreate = _REAL["uc"]
    uuid._node = _REAL["node"]
