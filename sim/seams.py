"""The seams the simulator owns: clock, PRNG and host identity behind uuid1,
os.urandom (uuid4), and the leftovers of earlier runs (Node.store,
uuid._last_timestamp)."""
import os
import random
import time
import uuid

from . import bootstrap as B

REAL_MONOTONIC = time.monotonic
REAL_TIME = time.time
_REAL = {
    "time_ns": time.time_ns, "time": time.time,
    "getrandbits": random.getrandbits, "urandom": os.urandom,
    "gts": uuid._generate_time_safe, "uc": getattr(uuid, "_UuidCreate", None),
    "node": getattr(uuid, "_node", None),
}

EPOCH_NS = 1_700_000_000 * 10**9
HOST = 0x02005E10A0B1  # locally administered, fixed


class Clock:
    """Simulated clock. Readings are taken only by uuid1 through time.time_ns."""

    def __init__(self, seed):
        self.now = EPOCH_NS
        self.start = EPOCH_NS
        self.covered = 0          # sum of |dt| of all clock events
        self.freeze_left = 0
        self.res = 1              # ns
        self.reads = 0
        self.readings = []        # last few readings, for probes
        self.rng = random.Random(seed ^ 0x5EED5EED)
        self.urng = random.Random(seed ^ 0x0BADF00D)
        self.events = {}
        self.same_reading = 0
        self.backwards = 0
        self._last = None

    # --- what the code under test sees
    def time_ns(self):
        self.reads += 1
        if self.freeze_left > 0:
            self.freeze_left -= 1
        else:
            self.now += 137       # a call costs a little time
        r = (self.now // self.res) * self.res
        if self._last is not None:
            if r == self._last:
                self.same_reading += 1
            elif r < self._last:
                self.backwards += 1
        self._last = r
        return r

    def time(self):
        return self.time_ns() / 1e9

    def getrandbits(self, k):
        return self.rng.getrandbits(k)

    def urandom(self, n):
        return bytes(self.urng.getrandbits(8) for _ in range(n))

    # --- scheduler events
    def event(self, ev, arg):
        self.events[ev] = self.events.get(ev, 0) + 1
        if ev == "tick":
            self.now += arg
            self.covered += arg
        elif ev == "freeze":
            self.freeze_left = arg
        elif ev == "coarse":
            self.res = arg
        elif ev == "back":
            self.now -= arg
            self.covered += arg
        elif ev == "fwd":
            self.now += arg
            self.covered += arg
        else:
            raise ValueError(ev)


class LibState:
    """Process-global mutable state inside the library (module-level containers,
    class-level containers, mutable default arguments, lru caches).  One run must
    not see what an earlier run in the same worker process left there, or a seed
    would stop being an exactly repeatable execution.  Pristine copies are taken
    once, right after import; before every run anything that differs is restored
    in place."""

    def __init__(self):
        import copy
        import sys
        import types
        self.slots = []      # (container object, pristine deep copy)
        self.caches = []
        self.scalars = []    # (owner module or class, attribute name, pristine immutable value)
        seen = set()
        simple = (int, float, str, bool, bytes, tuple, frozenset, type(None))

        def note_scalar(owner, k, v):
            if isinstance(v, simple) and not k.startswith("__"):
                try:
                    hash(v)
                except TypeError:
                    return
                self.scalars.append((owner, k, v))

        def note(obj):
            if isinstance(obj, (dict, list, set)) and id(obj) not in seen and obj is not B.Node.store:
                seen.add(id(obj))
                try:
                    self.slots.append((obj, copy.deepcopy(obj)))
                except Exception:       # noqa: BLE001
                    pass

        def scan_function(fn):
            fn = getattr(fn, "__func__", fn)
            if hasattr(fn, "cache_clear"):
                self.caches.append(fn)
                fn = getattr(fn, "__wrapped__", fn)
            if isinstance(fn, types.FunctionType):
                for d in (fn.__defaults__ or ()):
                    note(d)
                for d in (fn.__kwdefaults__ or {}).values():
                    note(d)

        for name, mod in list(sys.modules.items()):
            if not (name == "metapype" or name.startswith("metapype.")) or mod is None:
                continue
            for k, v in list(vars(mod).items()):
                if k.startswith("__"):
                    continue
                if isinstance(v, type) and getattr(v, "__module__", None) == name:
                    for ck, cv in list(vars(v).items()):
                        if ck.startswith("__"):
                            continue
                        raw = cv.__func__ if isinstance(cv, (staticmethod, classmethod)) else cv
                        if isinstance(raw, property):
                            for f in (raw.fget, raw.fset, raw.fdel):
                                if f is not None:
                                    scan_function(f)
                        elif callable(raw):
                            scan_function(raw)
                        else:
                            note(raw)
                            note_scalar(v, ck, raw)
                elif callable(v) and getattr(v, "__module__", None) == name:
                    scan_function(v)
                elif not isinstance(v, types.ModuleType):
                    note(v)
                    note_scalar(mod, k, v)
        fn = getattr(B, "to_20210209", None)
        if fn is not None:
            scan_function(fn)

    def reset(self):
        n = 0
        for obj, pristine in self.slots:
            if obj != pristine:
                import copy
                fresh = copy.deepcopy(pristine)
                if isinstance(obj, list):
                    obj[:] = fresh
                else:
                    obj.clear()
                    obj.update(fresh)
                n += 1
        for c in self.caches:
            c.cache_clear()
        # counters and flags kept in module-level or class-level names
        for owner, k, v in self.scalars:
            try:
                cur = getattr(owner, k)
            except AttributeError:
                cur = v
            if cur is not v and cur != v or type(cur) is not type(v):
                try:
                    setattr(owner, k, v)
                    n += 1
                except Exception:       # noqa: BLE001
                    pass
        return n


LIB = LibState()


def install(clock):
    clock.lib_restored = LIB.reset()
    uuid._generate_time_safe = None
    if hasattr(uuid, "_UuidCreate"):
        uuid._UuidCreate = None
    uuid._node = HOST
    uuid._last_timestamp = None
    time.time_ns = clock.time_ns
    time.time = clock.time
    random.getrandbits = clock.getrandbits
    os.urandom = clock.urandom
    B.Node.store.clear()


def uninstall():
    time.time_ns = _REAL["time_ns"]
    time.time = _REAL["time"]
    random.getrandbits = _REAL["getrandbits"]
    os.urandom = _REAL["urandom"]
    uuid._generate_time_safe = _REAL["gts"]
    if hasattr(uuid, "_UuidCreate"):
        uuid._UuidCreate = _REAL["uc"]
    uuid._node = _REAL["node"]
