"""One run = one seed = one exactly repeatable execution.  Batches of runs,
shrinking, replay files."""
import hashlib
import json
import os
import random
import signal
import sys
import time

from . import bootstrap as B
from . import seams
from .gen import propose
from .ops import KINDS, View, Skip, Out
from .profiles import PROFILES, Ctx, Violation
from . import emlops, profiles2  # noqa: F401  (register kinds and profiles)
from .world import World, state_key

Node = B.Node
MASK = (1 << 64) - 1
REAL_MONO = seams.REAL_MONOTONIC


def splitmix64(x):
    x = (x + 0x9E3779B97F4A7C15) & MASK
    z = x
    z = ((z ^ (z >> 30)) * 0xBF58476D1CE4E5B9) & MASK
    z = ((z ^ (z >> 27)) * 0x94D049BB133111EB) & MASK
    return z ^ (z >> 31)


def run_seed(prop, base_seed, index):
    x = splitmix64(base_seed & MASK)
    for ch in prop.encode():
        x = splitmix64(x ^ ch)
    return splitmix64(x ^ (index & MASK))


class HangError(BaseException):
    pass


def _on_alarm(signum, frame):
    raise HangError("step did not return within the watchdog interval")


STEP_WATCHDOG_S = 20.0
RUN_WALL_CAP_S = 15.0
DEEP_TREE_LEVELS = 100
SHRINK_WATCHDOG_S = 5.0


def call(fn, *a):
    try:
        return Out(True, fn(*a))
    except Exception as e:      # noqa: BLE001 -- whatever the library raises is an outcome
        return Out(False, None, e)


def _plain(W, v, depth=0):
    """Values for the reader: nodes as handles, nothing that depends on uuids."""
    if isinstance(v, Node):
        return "<h%s>" % W.h_of.get(id(v), "?")
    if isinstance(v, dict) and depth < 3:
        return {k: _plain(W, x, depth + 1) for k, x in v.items() if k not in ("text", "text2", "legacy_twin")}
    if isinstance(v, (list, tuple)) and depth < 3:
        return [_plain(W, x, depth + 1) for x in v[:12]]
    if isinstance(v, (str, int, float, bool)) or v is None:
        return v if not isinstance(v, str) else v[:80]
    return ascii(v)[:80]


class Result:
    def __init__(self):
        self.seed = None
        self.cfg = None
        self.ops = []            # ops as executed (replayable)
        self.trace = []          # (step, op, resolved, outcome) for the reader
        self.violation = None
        self.known = {}          # known-finding key -> count
        self.steps = 0
        self.skipped = 0
        self.judged = {}
        self.probes = {}
        self.states = set()
        self.trace_hash = 0
        self.nontrivial = False
        self.digest = None
        self.clock = None
        self.unjudged = {}


def simulate(prop, cfg, ops=None, known=(), digest=False, want_trace=False, states=True, watchdog=None):
    """Executes one run.  With ops=None the operation list is generated from
    cfg['seed']; otherwise ops is replayed literally (no PRNG draw decides
    anything except the clock_seq sub-PRNG, which is seeded from cfg)."""
    profile = PROFILES[prop]
    res = Result()
    res.cfg = cfg
    res.seed = cfg["seed"]
    rng = random.Random(cfg["seed"]) if ops is None else None
    if rng is not None:
        rng.random()
    clock = seams.Clock(cfg["seed"])
    seams.install(clock)
    W = World(cfg["nsess"])
    W.clock = clock
    W.fresh_counter = 0
    W.cur_sess = 0
    W.burst_left = 0
    W.recent_ns = []
    W.last_touch = None
    W.corpus_loaded = False
    W.corpus_json_loaded = False
    W.cfg = cfg
    state = {"collisions": []}
    profile.start(state)
    weights = {k: v for k, v in cfg.get("weights", {}).items() if k in KINDS}
    sha = hashlib.sha256() if digest else None
    want_alias = prop in ("C13", "C12")
    own = profile.own_kinds
    knownset = set(known)
    th = []
    signal.signal(signal.SIGALRM, _on_alarm)
    pre = W.snapshot(0)
    nsteps = cfg["steps"] if ops is None else len(ops)
    i = 0
    try:
        c = out = None
        t_run = REAL_MONO()
        while i < nsteps:
            c = out = None          # nothing of the previous step keeps node objects alive
            if ops is None and i % 32 == 31 and REAL_MONO() - t_run > RUN_WALL_CAP_S:
                # a generated history that has become this expensive is cut short (never a replay)
                res.probes["runs_cut_short_by_wall_cap"] = 1
                break
            V = View(W, pre)
            if ops is None:
                op = propose(rng, cfg, weights, W, pre, V)
                if op is None:
                    i += 1
                    continue
            else:
                op = ops[i]
            i += 1
            kobj = KINDS.get(op["k"])
            if kobj is None:
                continue
            try:
                R = kobj.resolve(V, op)
            except Skip:
                res.skipped += 1
                continue
            res.ops.append(op)
            if want_alias:
                state["alias_pre"] = W.alias_partition()
            nh = len(W.nodes)
            signal.setitimer(signal.ITIMER_REAL, watchdog or STEP_WATCHDOG_S)
            try:
                out = call(kobj.run, W, R, op)
            except HangError:
                signal.setitimer(signal.ITIMER_REAL, 0)
                v = Violation(prop, "hang", "%s:hang" % op["k"],
                              "operation %s did not return within %gs" % (op["k"], STEP_WATCHDOG_S))
                v.step, v.op = len(res.ops) - 1, op
                # a hang is a verdict only where the property promises an outcome
                if op["k"] in own and profile.hang_is_judged(pre, R, op, kobj):
                    res.violation = v
                else:
                    res.probes["aborted_unjudged_hang"] = res.probes.get("aborted_unjudged_hang", 0) + 1
                break
            signal.setitimer(signal.ITIMER_REAL, 0)
            exp = kobj.spec(pre, R, op, out)
            if not out.ok and isinstance(out.exc, (RecursionError, MemoryError)):
                # The library is recursive throughout; a tree a few hundred levels deep exhausts the
                # interpreter's stack in any of its operations.  No property speaks about that limit:
                # on deep trees the step is adopted unjudged.  On shallow trees a RecursionError is an
                # ordinary outcome (a cycle, a runaway recursion) and is judged like any exception.
                hs = [x for x in R.values() if isinstance(x, int)]
                roots = set(pre.root_of(x) for x in hs) if hs else set(h for h in pre.alive() if h not in pre.listers)
                if any(pre.height(r) >= DEEP_TREE_LEVELS for r in roots):
                    exp.judged = False
                    exp.notes["resource_exhausted"] = True
                    res.probes["recursion_limit_on_deep_tree_unjudged"] = \
                        res.probes.get("recursion_limit_on_deep_tree_unjudged", 0) + 1
            if "p" in R and "c" in R and kobj.mutating:
                W.last_touch = (op["s"], R["p"], R["c"])
            post = W.snapshot(op["s"])
            if op["k"] == "restart":
                W.ids_seen.clear()
                state["collisions"] = W.note_ids(post, 0)
            else:
                state["collisions"] = W.note_ids(post, nh)
            c = Ctx()
            c.W, c.op, c.kobj, c.R, c.pre, c.post, c.out, c.exp, c.nh, c.state = \
                W, op, kobj, R, pre, post, out, exp, nh, state
            c.step = len(res.ops) - 1
            res.steps += 1
            if exp.notes.get("resource_exhausted"):
                profile.skipped(c)
                v = None
            else:
                v = profile.judge(c)
            if exp.judged:
                if op["k"] in own:
                    res.judged[op["k"]] = res.judged.get(op["k"], 0) + 1
                    res.nontrivial = True
            else:
                res.unjudged[op["k"]] = res.unjudged.get(op["k"], 0) + 1
            profile.probes(c, res.probes)
            th.append((op["s"], op["k"], out.ok, op.get("q") or op.get("f") or op.get("ev")))
            if want_trace:
                res.trace.append({"step": c.step, "op": op, "resolved": _plain(W, R), "outcome": out.brief(),
                                  "value": ascii(_plain(W, out.value) if out.ok else out.exc)[:160]})
            if sha is not None:
                sha.update(json.dumps(op, sort_keys=True).encode())
                sha.update(out.brief().encode())
                sha.update(repr(post.cells).encode("utf-8", "backslashreplace"))
                sha.update(repr(sorted(post.store.items(), key=repr)).encode("utf-8", "backslashreplace"))
            if states and (len(post.cells) <= 48 or i >= nsteps):
                # every step for small worlds, the final state only for large ones
                res.states.add(state_key(W, post))
            if v is not None:
                v.step, v.op = c.step, op
                v.detail.setdefault("resolved", R)
                v.detail.setdefault("outcome", out.brief())
                if v.key() in knownset:
                    res.known[v.key()] = res.known.get(v.key(), 0) + 1
                else:
                    res.violation = v
                    break
            pre = post
    finally:
        signal.setitimer(signal.ITIMER_REAL, 0)
        res.clock = {"events": dict(clock.events), "covered_ns": clock.covered, "reads": clock.reads,
                     "same_reading": clock.same_reading, "backwards": clock.backwards}
        seams.uninstall()
    res.trace_hash = hash(tuple(th))
    if sha is not None:
        res.digest = sha.hexdigest()
    return res


def make_cfg(prop, seed):
    rng = random.Random(seed ^ 0xC0FFEE)
    return PROFILES[prop].cfg(rng, seed)


def run_one(prop, base_seed, index, known=(), digest=False, want_trace=False):
    seed = run_seed(prop, base_seed, index)
    cfg = make_cfg(prop, seed)
    return simulate(prop, cfg, None, known, digest, want_trace)


# ------------------------------------------------------------------ shrinking
def _fails(prop, cfg, ops, key, known):
    # while shrinking, a hang that was already seen once need not be waited for as long
    r = simulate(prop, cfg, ops, known, states=False, watchdog=SHRINK_WATCHDOG_S if key[1] == "hang" else None)
    return r.violation is not None and r.violation.key() == key, r


def shrink(prop, cfg, ops, key, known=(), budget_s=60.0):
    """Best effort: whatever goes wrong while minimising, the last list that is known to fail
    the same way is returned."""
    state = {"ops": list(ops), "best": None}
    try:
        return _shrink(prop, cfg, ops, key, known, budget_s, state)
    except HangError:
        raise
    except Exception:       # noqa: BLE001
        if state["best"] is not None:
            return state["ops"], state["best"]
        ok, r = _fails(prop, cfg, ops, key, known)
        return (list(r.ops) if ok else ops), r


def _shrink(prop, cfg, ops, key, known, budget_s, state):
    """ddmin over the operation list, then operand simplification, while the
    same clause of the same property with the same signature still fails."""
    t0 = REAL_MONO()
    ok, r = _fails(prop, cfg, ops, key, known)
    if not ok:
        return ops, r
    ops = list(r.ops)     # drop everything after the failing step
    best = r
    state["ops"], state["best"] = ops, best
    n = 2
    while len(ops) >= 2 and REAL_MONO() - t0 < budget_s:
        chunk = max(1, len(ops) // n)
        reduced = False
        for start in range(0, len(ops), chunk):
            cand = ops[:start] + ops[start + chunk:]
            if not cand:
                continue
            ok, r = _fails(prop, cfg, cand, key, known)
            if ok:
                ops = list(r.ops)
                best = r
                state["ops"], state["best"] = ops, best
                n = max(n - 1, 2)
                reduced = True
                break
        if not reduced:
            if chunk == 1:
                break
            n = min(len(ops), n * 2)
    # operand simplification
    changed = True
    while changed and REAL_MONO() - t0 < budget_s:
        changed = False
        for i, op in enumerate(ops):
            for f, val in list(op.items()):
                if f in ("k", "s"):
                    continue
                cands = []
                if isinstance(val, bool) or val is None:
                    continue
                if isinstance(val, int) and val > 0:
                    cands = [0] if val == 1 else [0, val // 2]
                elif isinstance(val, str) and len(val) > 1 and f in ("v", "content"):
                    cands = ["x"]
                elif isinstance(val, list) and len(val) > 1 and f == "path":
                    cands = [val[:-1], val[1:]]
                for cv in cands:
                    nop = dict(op)
                    nop[f] = cv
                    cand = ops[:i] + [nop] + ops[i + 1:]
                    ok, r = _fails(prop, cfg, cand, key, known)
                    if ok and len(r.ops) <= len(ops):
                        ops = list(r.ops)
                        best = r
                        state["ops"], state["best"] = ops, best
                        changed = True
                        break
                if changed:
                    break
            if changed:
                break
    # literal seed documents: drop subtrees of the spec while the failure persists
    import copy as _copy
    for i, op in enumerate(ops):
        if "spec" not in op or REAL_MONO() - t0 >= budget_s:
            continue
        progress = True
        while progress and REAL_MONO() - t0 < budget_s:
            progress = False
            if i >= len(ops) or "spec" not in ops[i]:
                break       # an accepted candidate may have dropped skipped operations before this one
            paths = []

            def walk(node, path):
                for j in range(len(node[3]) - 1, -1, -1):
                    paths.append(path + [j])
                    walk(node[3][j], path + [j])
            walk(ops[i]["spec"], [])
            paths.sort(key=lambda pth: len(pth))      # big subtrees first
            for pth in paths:
                if REAL_MONO() - t0 >= budget_s:
                    break
                spec = _copy.deepcopy(ops[i]["spec"])
                node = spec
                try:
                    for j in pth[:-1]:
                        node = node[3][j]
                    del node[3][pth[-1]]
                except IndexError:
                    continue
                nop = dict(ops[i])
                nop["spec"] = spec
                cand = ops[:i] + [nop] + ops[i + 1:]
                ok, r = _fails(prop, cfg, cand, key, known)
                if ok and len(r.ops) <= len(ops):
                    ops = list(r.ops)
                    best = r
                    state["ops"], state["best"] = ops, best
                    progress = True
                    break
    return ops, best


# ------------------------------------------------------------------ replay files
def write_replay(prop, cfg, ops, res, path):
    v = res.violation
    slim = {k: cfg[k] for k in ("seed", "nsess")}
    doc = {
        "property": prop, "profile": PROFILES[prop].name,
        "clause": v.clause, "sig": v.sig, "message": v.msg,
        "seed": cfg["seed"], "cfg": slim, "ops": ops,
        "failing_step": v.step, "detail": v.detail,
        "repo_head": B.repo_head(),
    }
    r2 = simulate(prop, replay_cfg(doc), ops, (), want_trace=True, states=False)
    doc["resolved_trace"] = r2.trace
    with open(path, "w", encoding="ascii") as f:
        json.dump(doc, f, indent=1, default=str)
    return doc


def replay_cfg(doc):
    cfg = dict(doc["cfg"])
    cfg.setdefault("steps", len(doc["ops"]))
    return cfg


def replay_file(path, known=()):
    with open(path, "r", encoding="ascii") as f:
        doc = json.load(f)
    r = simulate(doc["property"], replay_cfg(doc), doc["ops"], known, want_trace=True, states=False)
    return doc, r
