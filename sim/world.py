"""World: every node object the simulator has ever held, named by handles,
and the observation of it (snapshots) through the library's public surface."""
from . import bootstrap as B

Node = B.Node

# cell layout
CH, PA, NS, FI, RG, NO = 0, 1, 2, 3, 4, 5
ASPECTS = {"children": CH, "parent": PA, "ns": NS, "fields": FI, "reg": RG, "nsorder": NO}
ASPECT_NAMES = ["children", "parent", "ns", "fields", "reg", "nsorder"]
# fields layout
F_ID, F_NAME, F_CONTENT, F_TAIL, F_PREFIX, F_ATTRS, F_EXTRAS = range(7)
FIELD_NAMES = ["id", "name", "content", "tail", "prefix", "attributes", "extras"]


def _fz(v):
    """Freeze a value read from the library into something comparable and
    printable.  Strings, ints, None stay; anything else becomes a tagged repr."""
    if v is None or isinstance(v, (str, int, float, bool)):
        return v
    if isinstance(v, dict):
        return ("dict",) + tuple((_fz(k), _fz(x)) for k, x in v.items())
    if isinstance(v, (list, tuple)):
        return ("seq",) + tuple(_fz(x) for x in v)
    return ("obj", type(v).__name__)


def _items(d):
    if type(d) is dict:
        if not d:
            return ()
    elif not isinstance(d, dict):
        return ("notdict", _fz(d))
    return tuple([(k if type(k) is str else _fz(k), v if type(v) is str else _fz(v)) for k, v in d.items()])


def _ns_items(d):
    if type(d) is dict:
        if not d:
            return ()
        if len(d) == 1:
            for k, v in d.items():
                return ((k if type(k) is str else _fz(k), v if type(v) is str else _fz(v)),)
    elif not isinstance(d, dict):
        return ("notdict", _fz(d))
    try:
        return tuple(sorted(((_fz(k), _fz(v)) for k, v in d.items()), key=repr))
    except Exception:
        return ("unsortable",)


class Snap:
    __slots__ = ("cells", "store", "listers", "_sub")

    def __init__(self):
        self.cells = []      # handle -> (children, parent, ns, fields, reg) | None
        self.store = {}      # registry key -> handle of the value (or a tag)
        self.listers = {}    # handle -> [handles that list it]
        self._sub = {}

    def alive(self):
        return [h for h, c in enumerate(self.cells) if c is not None]

    def lister(self, h):
        ls = self.listers.get(h)
        return ls[0] if ls else None

    def is_listed(self, h):
        return h in self.listers

    def subtree(self, h):
        """Handles of h and everything listed below it, pre-order."""
        r = self._sub.get(h)
        if r is None:
            r = []
            stack = [h]
            seen = set()
            while stack:
                x = stack.pop()
                if x in seen or not isinstance(x, int):
                    continue
                seen.add(x)
                r.append(x)
                c = self.cells[x]
                if c is not None:
                    stack.extend(reversed(c[CH]))
            self._sub[h] = r
        return r

    def ancestors(self, h):
        """Listers chain, nearest first (by listing, not by parent link)."""
        out = []
        seen = {h}
        x = self.lister(h)
        while x is not None and x not in seen:
            out.append(x)
            seen.add(x)
            x = self.lister(x)
        return out

    def height(self, h):
        """Number of levels of the tree below (and including) h; iterative."""
        best, stack, seen = 0, [(h, 1)], set()
        while stack:
            x, d = stack.pop()
            if x in seen or not isinstance(x, int):
                continue
            seen.add(x)
            if d > best:
                best = d
            c = self.cells[x]
            if c is not None and isinstance(c[CH], tuple):
                stack.extend((k, d + 1) for k in c[CH])
        return best

    def root_of(self, h):
        a = self.ancestors(h)
        return a[-1] if a else h

    def name(self, h):
        return self.cells[h][FI][F_NAME]

    def nsdict(self, h):
        ns = self.cells[h][NS]
        return dict(ns) if ns and ns[0] not in ("notdict", "unsortable") else {}


class World:
    def __init__(self, nsess):
        self.nodes = []      # handle -> Node | None (dropped at restart)
        self.owner = []      # handle -> session
        self.h_of = {}       # id(obj) -> handle   (objects are kept alive here)
        self.nsess = nsess
        self.ids_seen = {}   # node id -> handle, every id ever observed
        self.id_collisions = []

    def handle(self, obj, owner):
        h = self.h_of.get(id(obj))
        if h is None:
            h = len(self.nodes)
            self.nodes.append(obj)
            self.owner.append(owner)
            self.h_of[id(obj)] = h
        return h

    def drop_all(self):
        """Crash: every node object is lost."""
        for i in range(len(self.nodes)):
            self.nodes[i] = None
        self.h_of.clear()

    def node(self, h):
        return self.nodes[h]

    def snapshot(self, sess):
        nodes = self.nodes
        owner = self.owner
        store = Node.store
        s = Snap()
        cells = s.cells
        listers = s.listers
        i = 0
        getinst = Node.get_node_instance
        nscache = {}
        h_of_get = self.h_of.get
        swept = False
        while True:
            if i >= len(nodes):
                # nodes reachable from known ones are bound first (they inherit the
                # owner of whoever reaches them); what is only in the registry comes last
                if swept or not isinstance(store, dict):
                    break
                swept = True
                h_of = self.h_of
                for obj in list(store.values()):
                    if id(obj) not in h_of and isinstance(obj, Node):
                        self.handle(obj, sess)
                continue
            n = nodes[i]
            if n is None:
                cells.append(None)
                i += 1
                continue
            ow = owner[i]
            kids = n.children
            if isinstance(kids, list):
                ch = []
                for c in kids:
                    if isinstance(c, Node):
                        hc = h_of_get(id(c))
                        if hc is None:
                            hc = self.handle(c, ow)
                        ch.append(hc)
                        l = listers.get(hc)
                        if l is None:
                            listers[hc] = [i]
                        else:
                            l.append(i)
                    else:
                        ch.append(("notnode", type(c).__name__))
                ch = tuple(ch)
            else:
                ch = ("notlist", _fz(kids))
            p = n.parent
            if p is None:
                ph = None
            elif isinstance(p, Node):
                ph = self.handle(p, ow)
            else:
                ph = ("notnode", type(p).__name__)
            nid = n.id
            nm, co, ta, px = n.name, n.content, n.tail, n.prefix
            fields = (nid if type(nid) is str else _fz(nid), nm if type(nm) is str else _fz(nm),
                      co if co is None or type(co) is str else _fz(co),
                      ta if ta is None or type(ta) is str else _fz(ta),
                      px if px is None or type(px) is str else _fz(px),
                      _items(n.attributes), _items(n.extras))
            try:
                reg = getinst(nid) is n      # the public lookup, as the property's observe_at says
            except Exception:       # noqa: BLE001
                reg = False
            nsm = n.nsmap
            # one dictionary object is usually shared by many nodes: compute its view once per snapshot
            hit = nscache.get(id(nsm))
            if hit is None:
                # prefix order matters to what the exporters print; kept apart from the by-value view
                nso = tuple(nsm) if type(nsm) is dict and len(nsm) > 1 else ()
                hit = nscache[id(nsm)] = (_ns_items(nsm), nso)
            cells.append((ch, ph, hit[0], fields, reg, hit[1]))
            i += 1
        if isinstance(store, dict):
            h_of = self.h_of
            for k, v in store.items():
                s.store[_fz(k)] = h_of.get(id(v), ("foreign", type(v).__name__))
        else:
            s.store = {"<store is not a dict>": type(store).__name__}
        return s

    def note_ids(self, snap, start=0):
        """Uniqueness bookkeeping: record ids of handles >= start; returns the
        list of (id, first_handle, second_handle) collisions."""
        out = []
        for h in range(start, len(snap.cells)):
            c = snap.cells[h]
            if c is None:
                continue
            nid = c[FI][F_ID]
            prev = self.ids_seen.get(nid)
            if prev is None:
                self.ids_seen[nid] = h
            elif prev != h:
                out.append((nid, prev, h))
        return out

    def alias_partition(self):
        """Canonical alias structure of namespace dicts (reach measure only)."""
        grp = {}
        out = []
        for n in self.nodes:
            if n is None:
                out.append(-1)
                continue
            k = id(n.nsmap)
            g = grp.get(k)
            if g is None:
                g = grp[k] = len(grp)
            out.append(g)
        return tuple(out)


def state_key(world, snap):
    """Canonical abstract state: forest shape with names, alias partition of
    namespace maps, registration flags.  Alive handles are renumbered by rank,
    so the key does not depend on uuid values, addresses or restarts."""
    rank = {}
    for h, c in enumerate(snap.cells):
        if c is not None:
            rank[h] = len(rank)
    shape = tuple((tuple(rank.get(x, -1) if isinstance(x, int) else -2 for x in c[CH]),
                   c[FI][F_NAME], c[RG], len(c[NS]))
                  for c in snap.cells if c is not None)
    alias = tuple(g for g in world.alias_partition() if g >= 0)
    # renumber alias groups by first occurrence among alive nodes
    ren = {}
    alias = tuple(ren.setdefault(g, len(ren)) for g in alias)
    return hash((shape, alias))
