#!/usr/bin/env python3
"""seedcheck.py <PROP> [i ...]

Takes the deliverables a sub-agent left in /tmp/seed/<PROP>/out (change<i>.diff,
demo<i>.py, change<i>.md), confirms them in the scratch worktree
/tmp/seed/<PROP>/wt (repository tests pass with the change, the demonstration
fails with it and passes without it), runs the property's check against the
changed tree, and files everything under /verif/seeded/<PROP>-<i>/.
"""
import json
import os
import shutil
import subprocess
import sys
import time

HERE = os.path.dirname(os.path.dirname(os.path.realpath(__file__)))
PY = "/venv/bin/python"


def sh(cmd, **kw):
    return subprocess.run(cmd, capture_output=True, text=True, **kw)


def recheck_all(only):
    """Re-runs the checks against every kept seeded change in /verif/seeded, in one
    temporary worktree of /repo HEAD (removed afterwards); refreshes meta.json."""
    import tempfile
    tmp = tempfile.mkdtemp(prefix="verif-seed-")
    wt = os.path.join(tmp, "wt")
    sh(["git", "-C", "/repo", "worktree", "add", "--detach", wt, "HEAD"])
    env = dict(os.environ, PYTHONPATH=os.path.join(wt, "src"))
    budget = os.environ.get("SEED_BUDGET", "40")
    try:
        for name in sorted(os.listdir(os.path.join(HERE, "seeded"))):
            d = os.path.join(HERE, "seeded", name)
            if not os.path.isdir(d) or (only and name not in only and name.split("-")[0] not in only):
                continue
            with open(os.path.join(d, "meta.json")) as f:
                meta = json.load(f)
            prop = meta["property"]
            sh(["git", "-C", wt, "checkout", "--", "."])
            clean = sh([PY, os.path.join(d, "demo.py")], env=env, timeout=300, cwd=d)
            ap = sh(["git", "-C", wt, "apply", os.path.join(d, "patch.diff")])
            if ap.returncode != 0:
                print("%s: patch does not apply to HEAD: %s" % (name, ap.stderr[-200:]))
                continue
            tests = sh([PY, "-m", "pytest", "-q", "-p", "no:cacheprovider", "tests"], env=env, cwd=wt, timeout=900)
            sh(["git", "-C", wt, "checkout", "--", "tests"])
            broken = sh([PY, os.path.join(d, "demo.py")], env=env, timeout=300, cwd=d)
            t0 = time.time()
            chk = sh([os.path.join(HERE, "check"), prop, "--budget", budget, "--no-evidence"],
                     env=dict(os.environ, VERIF_REPO=wt), timeout=1800)
            dt = time.time() - t0
            detected = chk.returncode == 1 and ("VIOLATION property=%s" % prop) in chk.stdout
            vline = [l for l in chk.stdout.splitlines() if l.startswith("violation in run")]
            mini = [l for l in chk.stdout.splitlines() if l.startswith("minimised")]
            meta["confirmed"].update({"repo_tests_pass_with_change": tests.returncode == 0,
                                      "demo_passes_without_change": clean.returncode == 0,
                                      "demo_fails_with_change": broken.returncode != 0})
            meta["kept"] = tests.returncode == 0 and clean.returncode == 0 and broken.returncode != 0
            meta["check"] = {"detected": detected, "exit_code": chk.returncode, "wall_s": round(dt, 1),
                             "first_violation": vline[0] if vline else None, "minimised": mini[0] if mini else None,
                             "repo_base": sh(["git", "-C", wt, "rev-parse", "--short", "HEAD"]).stdout.strip()}
            with open(os.path.join(d, "meta.json"), "w") as f:
                json.dump(meta, f, indent=1)
            print("%s confirmed=%s detected=%s rc=%d %.0fs %s" % (name, meta["kept"], detected, chk.returncode, dt,
                                                               vline[0][:150] if vline else ""))
            sys.stdout.flush()
    finally:
        sh(["git", "-C", "/repo", "worktree", "remove", "--force", wt])
        shutil.rmtree(tmp, ignore_errors=True)
        sh(["git", "-C", "/repo", "worktree", "prune"])


def group(base):
    """Deliverables of a sub-agent that was given several properties: the first line of
    change<i>.md names the property; files go to the next free seeded/<PROP>-<n>."""
    import re
    wt, out = os.path.join(base, "wt"), os.path.join(base, "out")
    env = dict(os.environ, PYTHONPATH=os.path.join(wt, "src"), METAPYPE_WT=wt)
    budget = os.environ.get("SEED_BUDGET", "40")
    origin = os.environ.get("SEED_ORIGIN", "independent sub-agent given only property texts and a scratch worktree")
    i = 0
    while True:
        i += 1
        diff, demo, md = (os.path.join(out, "change%d.diff" % i), os.path.join(out, "demo%d.py" % i),
                          os.path.join(out, "change%d.md" % i))
        if not os.path.exists(diff):
            break
        note = open(md).read() if os.path.exists(md) else ""
        m = re.search(r"property:\s*(C\d+)", note)
        if not m:
            print("change%d: no property line" % i)
            continue
        prop = m.group(1)
        sh(["git", "-C", wt, "checkout", "--", "."])
        clean = sh([PY, demo], env=env, timeout=300, cwd=out)
        ap = sh(["git", "-C", wt, "apply", diff])
        if ap.returncode != 0:
            print("change%d (%s): patch does not apply" % (i, prop))
            continue
        tests = sh([PY, "-m", "pytest", "-q", "-p", "no:cacheprovider", "tests"], env=env, cwd=wt, timeout=900)
        sh(["git", "-C", wt, "checkout", "--", "tests"])
        broken = sh([PY, demo], env=env, timeout=300, cwd=out)
        confirmed = clean.returncode == 0 and broken.returncode != 0 and tests.returncode == 0
        t0 = time.time()
        chk = sh([os.path.join(HERE, "check"), prop, "--budget", budget, "--no-evidence"],
                 env=dict(os.environ, VERIF_REPO=wt), timeout=1800)
        dt = time.time() - t0
        detected = chk.returncode == 1 and ("VIOLATION property=%s" % prop) in chk.stdout
        vline = [l for l in chk.stdout.splitlines() if l.startswith("violation in run")]
        mini = [l for l in chk.stdout.splitlines() if l.startswith("minimised")]
        sh(["git", "-C", wt, "checkout", "--", "."])
        n = 1
        while os.path.exists(os.path.join(HERE, "seeded", "%s-%d" % (prop, n))):
            n += 1
        d = os.path.join(HERE, "seeded", "%s-%d" % (prop, n))
        os.makedirs(d)
        shutil.copy(diff, os.path.join(d, "patch.diff"))
        shutil.copy(demo, os.path.join(d, "demo.py"))
        meta = {"property": prop, "origin": origin, "needs_to_manifest": note,
                "confirmed": {"repo_tests_pass_with_change": tests.returncode == 0,
                              "demo_passes_without_change": clean.returncode == 0,
                              "demo_fails_with_change": broken.returncode != 0,
                              "ran": ["pytest of the repository with the change", "demo.py without and with the change",
                                      "VERIF_REPO=<wt> ./check %s --budget %s --no-evidence" % (prop, budget)]},
                "kept": confirmed,
                "check": {"detected": detected, "exit_code": chk.returncode, "wall_s": round(dt, 1),
                          "first_violation": vline[0] if vline else None, "minimised": mini[0] if mini else None,
                          "repo_base": sh(["git", "-C", wt, "rev-parse", "--short", "HEAD"]).stdout.strip()}}
        with open(os.path.join(d, "meta.json"), "w") as f:
            json.dump(meta, f, indent=1)
        print("%s-%d (change%d) confirmed=%s detected=%s rc=%d %.0fs %s" %
              (prop, n, i, confirmed, detected, chk.returncode, dt, vline[0][:150] if vline else ""))
        sys.stdout.flush()


def main():
    if sys.argv[1] == "--all":
        return recheck_all(sys.argv[2:])
    if sys.argv[1] == "--group":
        return group(sys.argv[2])
    prop = sys.argv[1]
    which = [int(x) for x in sys.argv[2:]] or [1, 2, 3]
    base = "%s/%s" % (os.environ.get("SEED_BASE", "/tmp/seed"), prop)
    offset = int(os.environ.get("SEED_OFFSET", "0"))
    origin = os.environ.get("SEED_ORIGIN", "independent sub-agent given only the property text and a scratch worktree")
    wt = os.path.join(base, "wt")
    out = os.path.join(base, "out")
    env = dict(os.environ, PYTHONPATH=os.path.join(wt, "src"))
    budget = os.environ.get("SEED_BUDGET", "40")
    for i in which:
        diff = os.path.join(out, "change%d.diff" % i)
        demo = os.path.join(out, "demo%d.py" % i)
        if not (os.path.exists(diff) and os.path.exists(demo)):
            print("%s-%d: deliverables missing" % (prop, i))
            continue
        sh(["git", "-C", wt, "checkout", "--", "."])
        clean = sh([PY, demo], env=env, timeout=300, cwd=out)
        ap = sh(["git", "-C", wt, "apply", diff])
        if ap.returncode != 0:
            print("%s-%d: patch does not apply: %s" % (prop, i, ap.stderr[-300:]))
            continue
        tests = sh([PY, "-m", "pytest", "-q", "-p", "no:cacheprovider", "tests"], env=env, cwd=wt, timeout=900)
        sh(["git", "-C", wt, "checkout", "--", "tests"])
        broken = sh([PY, demo], env=env, timeout=300, cwd=out)
        confirmed = clean.returncode == 0 and broken.returncode != 0 and tests.returncode == 0
        t0 = time.time()
        chk = sh([os.path.join(HERE, "check"), prop, "--budget", budget, "--no-evidence"],
                 env=dict(os.environ, VERIF_REPO=wt), timeout=1800)
        dt = time.time() - t0
        detected = chk.returncode == 1 and ("VIOLATION property=%s" % prop) in chk.stdout
        vline = [l for l in chk.stdout.splitlines() if l.startswith("violation in run")]
        mini = [l for l in chk.stdout.splitlines() if l.startswith("minimised")]
        sh(["git", "-C", wt, "checkout", "--", "."])
        d = os.path.join(HERE, "seeded", "%s-%d" % (prop, i + offset))
        os.makedirs(d, exist_ok=True)
        shutil.copy(diff, os.path.join(d, "patch.diff"))
        shutil.copy(demo, os.path.join(d, "demo.py"))
        md = os.path.join(out, "change%d.md" % i)
        needs = open(md).read() if os.path.exists(md) else ""
        meta = {
            "property": prop,
            "origin": origin,
            "needs_to_manifest": needs,
            "confirmed": {
                "repo_tests_pass_with_change": tests.returncode == 0,
                "demo_passes_without_change": clean.returncode == 0,
                "demo_fails_with_change": broken.returncode != 0,
                "ran": ["PYTHONPATH=<wt>/src /venv/bin/python -m pytest -q -p no:cacheprovider tests",
                        "PYTHONPATH=<wt>/src /venv/bin/python demo.py (clean tree, then with patch.diff applied)",
                        "VERIF_REPO=<wt> ./check %s --budget %s --no-evidence (patch applied)" % (prop, budget)],
            },
            "kept": confirmed,
            "check": {"detected": detected, "exit_code": chk.returncode, "wall_s": round(dt, 1),
                      "first_violation": vline[0] if vline else None, "minimised": mini[0] if mini else None,
                      "repo_base": sh(["git", "-C", wt, "rev-parse", "--short", "HEAD"]).stdout.strip()},
        }
        with open(os.path.join(d, "meta.json"), "w") as f:
            json.dump(meta, f, indent=1)
        print("%s-%d confirmed=%s detected=%s rc=%d %.0fs %s" %
              (prop, i + offset, confirmed, detected, chk.returncode, dt, (vline[0][:170] if vline else chk.stdout.strip()[-200:])))
        sys.stdout.flush()


if __name__ == "__main__":
    main()
