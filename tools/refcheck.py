#!/usr/bin/env python3
"""refcheck.py <group dir> [budget]   |   refcheck.py --all [budget]

False-alarm test.  <group dir> holds a scratch worktree wt/ and out/change<i>.diff
(+ .md): changes written by a sub-agent that are meant to KEEP every property
true (refactorings, or other behaviour where a statement leaves it open).  Each
is applied, the repository's tests are run, and all eight checks are run against
the changed tree.  Any VIOLATION is either a false alarm of the machinery or a
change that does break a property after all; both are looked at by hand.
Results are filed under /verif/refactorings/<name>/.

--all re-runs every filed change against a temporary worktree of /repo HEAD.
"""
import json
import os
import shutil
import subprocess
import sys
import tempfile
import time

HERE = os.path.dirname(os.path.dirname(os.path.realpath(__file__)))
PY = "/venv/bin/python"
PROPS = ["C06", "C09", "C11", "C12", "C13", "C14", "C15", "C16"]


def sh(cmd, **kw):
    return subprocess.run(cmd, capture_output=True, text=True, **kw)


def run_checks(wt, budget):
    res = {}
    for p in PROPS:
        t0 = time.time()
        c = sh([os.path.join(HERE, "check"), p, "--budget", str(budget), "--no-evidence"],
               env=dict(os.environ, VERIF_REPO=wt), timeout=1800)
        v = [l for l in c.stdout.splitlines() if l.startswith("violation in run")]
        tail = [l for l in c.stdout.splitlines() if l.startswith("%s:" % p)]
        res[p] = {"exit": c.returncode, "wall_s": round(time.time() - t0, 1),
                  "violation": v[0] if v else None, "summary": tail[-1] if tail else c.stdout[-300:]}
    return res


def one(wt, diff, md, name, budget, note_origin):
    sh(["git", "-C", wt, "checkout", "--", "."])
    ap = sh(["git", "-C", wt, "apply", diff])
    if ap.returncode != 0:
        print("%s: patch does not apply: %s" % (name, ap.stderr[-200:]))
        return
    env = dict(os.environ, PYTHONPATH=os.path.join(wt, "src"))
    tests = sh([PY, "-m", "pytest", "-q", "-p", "no:cacheprovider", "tests"], env=env, cwd=wt, timeout=900)
    sh(["git", "-C", wt, "checkout", "--", "tests"])
    res = run_checks(wt, budget)
    sh(["git", "-C", wt, "checkout", "--", "."])
    d = os.path.join(HERE, "refactorings", name)
    os.makedirs(d, exist_ok=True)
    if os.path.realpath(diff) != os.path.realpath(os.path.join(d, "patch.diff")):
        shutil.copy(diff, os.path.join(d, "patch.diff"))
    note = open(md).read() if md and os.path.exists(md) else ""
    meta_path = os.path.join(d, "meta.json")
    meta = {}
    if os.path.exists(meta_path):
        with open(meta_path) as f:
            meta = json.load(f)
    meta.update({"origin": meta.get("origin", note_origin), "claim": meta.get("claim", note),
                 "repo_tests_pass": tests.returncode == 0, "budget_s": budget, "checks": res,
                 "alarms": sorted(p for p, r in res.items() if r["exit"] == 1),
                 "harness_errors": sorted(p for p, r in res.items() if r["exit"] not in (0, 1))})
    with open(meta_path, "w") as f:
        json.dump(meta, f, indent=1)
    print("%s tests_pass=%s alarms=%s harness_errors=%s" % (name, tests.returncode == 0, meta["alarms"], meta["harness_errors"]))
    for p in meta["alarms"]:
        print("    %s" % res[p]["violation"][:200])
    sys.stdout.flush()


def main():
    if sys.argv[1] == "--all":
        budget = float(sys.argv[2]) if len(sys.argv) > 2 else 20
        tmp = tempfile.mkdtemp(prefix="verif-ref-")
        wt = os.path.join(tmp, "wt")
        sh(["git", "-C", "/repo", "worktree", "add", "--detach", wt, "HEAD"])
        try:
            base = os.path.join(HERE, "refactorings")
            for name in sorted(os.listdir(base)):
                d = os.path.join(base, name)
                if os.path.isdir(d):
                    one(wt, os.path.join(d, "patch.diff"), None, name, budget, "")
        finally:
            sh(["git", "-C", "/repo", "worktree", "remove", "--force", wt])
            shutil.rmtree(tmp, ignore_errors=True)
            sh(["git", "-C", "/repo", "worktree", "prune"])
        return
    base = sys.argv[1].rstrip("/")
    budget = float(sys.argv[2]) if len(sys.argv) > 2 else 20
    wt, out = os.path.join(base, "wt"), os.path.join(base, "out")
    tag = os.path.basename(base)
    origin = os.environ.get("REF_ORIGIN", "sub-agent given the eight property texts and a scratch worktree, asked for "
                                          "changes that keep every property true")
    i = 0
    while True:
        i += 1
        diff = os.path.join(out, "change%d.diff" % i)
        if not os.path.exists(diff):
            break
        one(wt, diff, os.path.join(out, "change%d.md" % i), "%s-%d" % (tag, i), budget, origin)


if __name__ == "__main__":
    main()
