#!/usr/bin/env python3
"""Builds the hand-written sensitivity mutants (DESIGN.md section 5) as patches
under /verif/mutants, from textual replacements applied to a scratch worktree
of /repo HEAD outside /repo and /verif.  The revert-*.diff mutants (reverse
patches of the fix: commits) are kept as they are."""
import json
import os
import shutil
import subprocess
import tempfile

HERE = os.path.dirname(os.path.dirname(os.path.realpath(__file__)))
NODE = "src/metapype/model/node.py"
MIO = "src/metapype/model/metapype_io.py"
MPIO = "src/metapype/model/mp_io.py"
VAL = "src/metapype/eml/validate.py"
REF = "src/metapype/eml/references.py"
RULE = "src/metapype/eml/rule.py"
EVAL = "src/metapype/eml/evaluate.py"
CONV = "utils/convert.py"

M = []


def mut(mid, prop, path, old, new, note, budget=40):
    M.append(dict(id=mid, property=prop, file=path, old=old, new=new, note=note, budget=budget))


# ------------------------------------------------------------------ C09
mut("c09-insert-no-parent-link", "C09", NODE,
    """            self._children.insert(index, child)
            child.parent = self
""", """            self._children.insert(index, child)
""", "indexed insert does not set the parent link")
mut("c09-shift-sib-stale-index", "C09", NODE,
    """                        index = sib_index
                        break
            else:
                if index < len(self._children) - 1:""",
    """                        break
            else:
                if index < len(self._children) - 1:""",
    "same-name shift to the right returns the old index")
mut("c09-find-descendant-bfs", "C09", NODE,
    """        descendant = None
        for descendant_node in self._children:
            if descendant_node.name == descendant_name:
                descendant = descendant_node
            else:
                descendant = descendant_node.find_descendant(descendant_name=descendant_name)
            if descendant:
                break
        return descendant
""", """        descendant = self.find_child(descendant_name)
        if descendant is None:
            for descendant_node in self._children:
                descendant = descendant_node.find_descendant(descendant_name=descendant_name)
                if descendant:
                    break
        return descendant
""", "find_descendant looks at all children before descending (not document order)")
mut("c09-path-first-children-only", "C09", NODE,
    "                next_generation.extend(node.find_all_children(name))",
    "                next_generation.extend(node.find_all_children(name)[:1])",
    "find_all_nodes_by_path follows only the first matching child at each level")
mut("c09-ancestry-leaf-first", "C09", NODE,
    "            ancestry.insert(0, node)", "            ancestry.append(node)", "get_ancestry returns leaf first")
mut("c09-replace-assigns-before-check", "C09", NODE,
    """        if new_child.name != old_child.name:
            msg = f'Child type "{new_child.name}" and "{old_child.name}" mismatch'
            raise ValueError(msg)

        new_child.parent = self
        self._children[self._children.index(old_child)] = new_child
""", """        new_child.parent = self
        self._children[self._children.index(old_child)] = new_child
        if new_child.name != old_child.name:
            msg = f'Child type "{new_child.name}" and "{old_child.name}" mismatch'
            raise ValueError(msg)
""", "replace_child swaps before it checks the names: a failing edit changes the tree")
mut("c09-remove-child-by-name", "C09", NODE,
    "        self._children.remove(child)\n",
    """        for c in self._children:
            if c.name == child.name:
                self._children.remove(c)
                break
        else:
            raise ValueError("not a child")
""", "remove_child removes the first child of the same name")
mut("c09-shift-left-sib-skips-one", "C09", NODE,
    "                for sib_index in range(index - 1, -1, -1):",
    "                for sib_index in range(index - 2, -1, -1):",
    "same-name shift to the left never considers the immediate neighbour")
mut("c09-remove-children-in-place-alias", "C09", NODE,
    "        self._children = []\n\n    def remove_namespace",
    "        del self._children[1:]\n\n    def remove_namespace",
    "remove_children keeps the first child")

mut("c09-replace-moves-to-end", "C09", NODE,
    "        self._children[self._children.index(old_child)] = new_child\n",
    "        self._children.remove(old_child)\n        self._children.append(new_child)\n",
    "replace_child puts the new child at the end instead of the old child's position")

# ------------------------------------------------------------------ C13
mut("c13-remove-in-place", "C13", NODE,
    """        if prefix in self.nsmap:
            self.nsmap = copy.deepcopy(self.nsmap)
            del self.nsmap[prefix]
""", """        if prefix in self.nsmap:
            del self.nsmap[prefix]
""", "remove_namespace deletes from the shared dictionary in place")
mut("c13-attach-parent-wins", "C13", NODE,
    """            for prefix in self.nsmap:
                if prefix not in child.nsmap:
                    child.add_namespace(prefix, self.nsmap[prefix])
""", """            for prefix in self.nsmap:
                child.add_namespace(prefix, self.nsmap[prefix])
""", "attach overwrites the child's own bindings with the parent's")
mut("c13-attach-alias-same-size", "C13", NODE,
    "        if self.nsmap == child.nsmap and list(self.nsmap) == list(child.nsmap):",
    "        if list(self.nsmap) == list(child.nsmap):",
    "attach shares the parent's map whenever the prefixes agree, whatever the URIs")
mut("c13-remove-no-recursion-into-own-maps", "C13", NODE,
    """                child.remove_namespace(prefix, nsmap_id=nsmap_id)
            else:
                child.remove_namespace(prefix)
""", """                child.remove_namespace(prefix, nsmap_id=nsmap_id)
""", "remove_namespace does not reach descendants that have a map of their own")
mut("c13-declare-skips-bound-descendants", "C13", NODE,
    """                child.add_namespace(prefix, namespace, nsmap_id=nsmap_id)
            else:
                child.add_namespace(prefix, namespace)
""", """                child.add_namespace(prefix, namespace, nsmap_id=nsmap_id)
            elif prefix not in child.nsmap:
                child.add_namespace(prefix, namespace)
""", "declaring does not override a descendant that already binds the prefix")
mut("c13-set-nsmap-on-parent", "C13", NODE,
    """        self.nsmap = nsmap
        if children:""", """        self.nsmap = nsmap
        if self.parent is not None and self.parent.nsmap == {}:
            self.parent.nsmap = nsmap
        if children:""", "set_nsmap also hands the map to a parent whose map is empty")

# ------------------------------------------------------------------ C14
mut("c14-copy-no-register", "C14", NODE,
    "        _copy._id = str(uuid.uuid1())\n        Node.set_node_instance(_copy)\n",
    "        _copy._id = str(uuid.uuid1())\n        if not self._children:\n            Node.set_node_instance(_copy)\n",
    "copy registers only leaf nodes")
mut("c14-id-from-clock", "C14", NODE,
    "        self._id = str(uuid.uuid1()) if id is None else id\n",
    "        import time\n        self._id = (\"n%x\" % time.time_ns()) if id is None else id\n",
    "ids are drawn from the clock alone: collide when the clock is frozen, coarse or steps back")
mut("c14-id-uuid1-no-monotonic-guard", "C14", NODE,
    "        self._id = str(uuid.uuid1()) if id is None else id\n",
    "        import time\n        self._id = str(uuid.UUID(int=(time.time_ns() << 32) | 0x1234, version=1)) if id is None else id\n",
    "home-made time-based uuid without the same-tick guard")
mut("c14-delete-one-level", "C14", NODE,
    """                # A descendant may already have been removed on its own
                Node.store.pop(descendant.id, None)
                descendants.extend(descendant.children)
""", """                # A descendant may already have been removed on its own
                Node.store.pop(descendant.id, None)
""", "delete by id unregisters children but not deeper descendants")
mut("c14-discard-one-level", "C14", NODE,
    """                visited.add(descendant)
                Node.store.pop(descendant.id, None)
                descendants.extend(descendant.children)
        Node.store.pop(node.id, None)
""", """                visited.add(descendant)
                Node.store.pop(descendant.id, None)
        Node.store.pop(node.id, None)
""", "discarding operations unregister children but not deeper descendants")
mut("revert-delete-fix", "C14", NODE,
    """            node = cls.get_node_instance(id)
            descendants = list(node.children)
            visited = {node}
            while descendants:
                descendant = descendants.pop()
                if descendant in visited:
                    # Malformed (cyclic) structure: do not walk it forever
                    continue
                visited.add(descendant)
                # A descendant may already have been removed on its own
                Node.store.pop(descendant.id, None)
                descendants.extend(descendant.children)
        del Node.store[id]
""", """            node = cls.get_node_instance(id)
            for child in node.children:
                cls.delete_node_instance(child.id)
        del Node.store[id]
""", "the code before fix 364b529: every descendant is looked up in the registry again")
mut("revert-discard-by-node-fix", "C14", NODE,
    """        if children:
            descendants = list(node.children)
            visited = {node}
            while descendants:
                descendant = descendants.pop()
                if descendant in visited:
                    continue
                visited.add(descendant)
                Node.store.pop(descendant.id, None)
                descendants.extend(descendant.children)
        Node.store.pop(node.id, None)
""", """        cls.delete_node_instance(node.id, children)
""", "the behaviour before fix 603eeb2: discarding goes through the registry lookup by id", 60)
mut("c14-replace-deletes-old-node-only", "C14", NODE,
    "            Node.delete_node(old_child)\n",
    "            Node.delete_node(old_child, children=False)\n",
    "replace with deletion leaves the old child's descendants registered")
mut("c14-prune-skips-registry", "C14", VAL,
    """                pruned.append((child, msg))
                n.remove_child(child)
                Node.delete_node(child)
""", """                pruned.append((child, msg))
                n.remove_child(child)
""", "prune does not unregister disallowed children it removes")
mut("c14-expand-skips-registry", "C14", REF,
    "        destination_node.remove_child(reference)\n        Node.delete_node(reference)\n",
    "        destination_node.remove_child(reference)\n",
    "expand leaves the removed references nodes registered")
mut("c14-remove-child-unregisters", "C14", NODE,
    "        self._children.remove(child)\n",
    "        self._children.remove(child)\n        Node.store.pop(child.id, None)\n",
    "plain detach unregisters the detached child")
mut("c14-import-children-unregistered", "C14", MIO,
    """    for child in node.children:
        child.parent = node
        if child.nsmap == node.nsmap:""", """    for child in node.children:
        child.parent = node
        if len(child.children) == 0 and child.content is None:
            Node.store.pop(child.id, None)
        if child.nsmap == node.nsmap:""", "XML import drops empty leaf elements from the registry")

# ------------------------------------------------------------------ C12
mut("c12-share-attributes", "C12", NODE,
    """        _copy.attributes = {}
        for key, val in self.attributes.items():
            _copy.attributes[key] = val
""", "", "copy keeps the shallow copy's reference to the attributes dict")
mut("c12-share-extras", "C12", NODE,
    """        _copy.extras = {}
        for key, val in self.extras.items():
            _copy.extras[key] = val
""", "", "copy shares the extras dict")
mut("c12-share-nsmap", "C12", NODE,
    """        _copy.nsmap = {}
        for key, val in self.nsmap.items():
            _copy.nsmap[key] = val
""", "", "copy shares the namespace map")
mut("c12-child-parent-stale", "C12", NODE,
    "            _child_copy.parent = _copy\n", "", "copied children keep pointing to the original parent")
mut("c12-leaf-children-shallow", "C12", NODE,
    "            _child_copy = child.copy()\n",
    "            _child_copy = child.copy() if child.children or child.attributes else copy.copy(child)\n",
    "attribute-less leaf children are shallow-copied: same id, shared dicts")
mut("c12-share-empty-dicts", "C12", NODE,
    """        _copy.extras = {}
        for key, val in self.extras.items():
            _copy.extras[key] = val
""", """        if self.extras:
            _copy.extras = dict(self.extras)
""", "copy shares the extras dict when it is empty (visible after a later add_extras)")
mut("c12-drops-tail-of-children", "C12", NODE,
    "            _child_copy.parent = _copy\n",
    "            _child_copy.parent = _copy\n            _child_copy.tail = None if len(self.children) > 2 else _child_copy.tail\n",
    "copy loses the tail of children when there are more than two")

# ------------------------------------------------------------------ C11
mut("c11-evaluate-normalises-title", "C11", EVAL,
    "            length = len(normalize(title).split(\" \"))\n",
    "            node.content = title = normalize(title)\n            length = len(title.split(\" \"))\n",
    "evaluation writes the normalised title back")
mut("c11-graph-strips-content", "C11", MIO,
    "    if node.content is not None:\n        g += f\": {node.content}\"\n",
    "    if node.content is not None:\n        node.content = node.content.strip()\n        g += f\": {node.content}\"\n",
    "graph rendering strips content in place")
mut("c11-to-json-sorts-attributes", "C11", MIO,
    "    j[node.name].append({\"attributes\": node.attributes})\n    j[node.name].append({\"extras\": node.extras})\n    j[node.name].append({\"content\": node.content})\n    j[node.name].append({\"tail\": node.tail})",
    "    node.attributes = dict(sorted(node.attributes.items()))\n    j[node.name].append({\"attributes\": node.attributes})\n    j[node.name].append({\"extras\": node.extras})\n    j[node.name].append({\"content\": node.content})\n    j[node.name].append({\"tail\": node.tail})",
    "JSON export sorts the attributes of the node it serialises")
mut("c11-validation-consumes-rule-table", "C11", RULE,
    """        for attribute in self._attributes:
            required = self._attributes[attribute][0]
""", """        for attribute in self._attributes:
            required = self._attributes[attribute][0]
            if required and errs is not None:
                self._attributes[attribute][0] = False
""", "collecting-mode validation clears the required flag in the shared rule table: later answers differ")
mut("c11-to-xml-fixes-nsmap", "C11", MIO,
    "    tag = f\"{node.name}\" if node.prefix is None else f\"{node.prefix}:{node.name}\"\n\n    attributes = \"\"\n    if len(node.attributes) > 0:\n        attributes += \" \".join([f\"{k}=\\\"{v}\\\"\" for k, v in node.attributes.items()])\n",
    "    tag = f\"{node.name}\" if node.prefix is None else f\"{node.prefix}:{node.name}\"\n    if parent is not None and node.nsmap == parent.nsmap:\n        node.nsmap = parent.nsmap\n    if node.tail is not None and node.tail.strip() == \"\":\n        node.tail = None\n\n    attributes = \"\"\n    if len(node.attributes) > 0:\n        attributes += \" \".join([f\"{k}=\\\"{v}\\\"\" for k, v in node.attributes.items()])\n",
    "XML export drops whitespace-only tails from the model")
mut("c11-mp-to-json-registers", "C11", MPIO,
    "    j = objectify(node)\n    return json.dumps(j)\n",
    "    j = objectify(node)\n    Node.store.setdefault(node.id, node)\n    return json.dumps(j)\n",
    "legacy JSON export re-registers the root")

# ------------------------------------------------------------------ C16
mut("c16-moves-instead-of-copies", "C16", REF,
    "            source_child_copy = source_child.copy()\n", "            source_child_copy = source_child\n",
    "expansion attaches the source's own children (no copy)")
mut("c16-reversed-order", "C16", REF,
    "            destination_node.add_child(source_child_copy, index)\n            index += 1\n",
    "            destination_node.add_child(source_child_copy, index)\n",
    "copies are inserted at a fixed index: reversed order")
mut("c16-no-duplicate-detection", "C16", REF,
    """            if k in id_register:
                msg = f"Duplicate use of ID: '{k}'"
                raise ValueError(msg)
""", """            if k in id_register and False:
                msg = f"Duplicate use of ID: '{k}'"
                raise ValueError(msg)
""", "duplicate ids are no longer detected")
mut("c16-strips-source-id", "C16", REF,
    "            destination_node.add_child(source_child_copy, index)\n            index += 1\n",
    "            destination_node.add_child(source_child_copy, index)\n            index += 1\n        source_node.attributes.pop(\"scope\", None)\n",
    "expansion removes the scope attribute of the referenced element")
mut("c16-keyerror-instead-of-valueerror", "C16", REF,
    """        if reference.content not in ids:
            msg = f"ID not found for REFERENCE '{reference}'"
            raise ValueError(msg)
    for reference in references:
        source_node = ids[reference.content]""",
    """        if reference.content is not None and reference.content not in ids:
            msg = f"ID not found for REFERENCE '{reference}'"
            raise ValueError(msg)
    for reference in references:
        source_node = ids[reference.content]""",
    "an empty references value escapes the check: KeyError after earlier references were expanded")
mut("c16-shallow-copy-of-grandchildren", "C16", REF,
    "            source_child_copy = source_child.copy()\n",
    "            source_child_copy = source_child.copy()\n            if len(source_child.children) > 2:\n                source_child_copy.children = list(source_child.children)\n",
    "children with more than two children of their own share the grandchildren with the source")

# ------------------------------------------------------------------ C15
mut("c15-recursion-only-in-strict", "C15", VAL,
    "            pruned += prune(child, strict)\n            if strict and child in n.children:",
    "            if strict or not child.children:\n                pruned += prune(child, strict)\n            if strict and child in n.children:",
    "non-strict prune does not descend into children that have children")
mut("c15-looks-inside-metadata", "C15", VAL,
    "    pruned = list()\n    if n.name != \"metadata\":\n        try:\n            node(n)",
    "    pruned = list()\n    if n.name != \"metadata\" or strict:\n        try:\n            node(n)",
    "strict prune inspects (and empties) metadata content")
mut("c15-strict-ignored-for-leaves", "C15", VAL,
    "            if strict and child in n.children:",
    "            if strict and child in n.children and child.children:",
    "strict mode never removes invalid leaf nodes")
mut("c15-drops-nested-results", "C15", VAL,
    "            pruned += prune(child, strict)\n            if strict and child in n.children:",
    "            sub = prune(child, strict)\n            if child in n.children:\n                pruned += sub[:1]\n            if strict and child in n.children:",
    "only the first removal below each child is reported")
mut("c15-removes-empty-leaves-too", "C15", VAL,
    "            if not r.is_allowed_child(child.name):\n",
    "            if not r.is_allowed_child(child.name) or (child.content is None and not child.children and not child.attributes):\n",
    "prune also 'cleans up' allowed children that are empty leaves")
mut("c15-registry-skip-nested", "C15", VAL,
    """            if n.parent is not None:
                n.parent.remove_child(n)
            Node.delete_node(n)
            return pruned""", """            if n.parent is not None:
                n.parent.remove_child(n)
            Node.delete_node(n, children=False)
            return pruned""", "an unknown node is unregistered without its descendants")
mut("c15-strict-validates-before-descending", "C15", VAL,
    "            pruned += prune(child, strict)\n            if strict and child in n.children:",
    "            invalid_on_entry = False\n            try:\n                node(child)\n            except MetapypeRuleError:\n                invalid_on_entry = True\n            pruned += prune(child, strict)\n            if strict and child in n.children and invalid_on_entry:",
    "strict mode re-validates only children that were invalid before their subtree was pruned: a second prune removes more")

# ------------------------------------------------------------------ C06
mut("c06-serialiser-drops-tail-of-leaves", "C06", MIO,
    "    j[node.name].append({\"tail\": node.tail})\n",
    "    j[node.name].append({\"tail\": node.tail if node.children or node.content is not None else None})\n",
    "the tail of an empty leaf element is not saved")
mut("c06-loader-extras-from-attributes-slot", "C06", MIO,
    "    extras = body[4][\"extras\"]\n", "    extras = body[4].get(\"extras\") if len(body[3][\"attributes\"]) == 0 else body[3][\"attributes\"]\n",
    "loader reads extras from the attributes slot when the node has attributes")
mut("c06-loader-parent-binding-wins", "C06", MIO,
    "        child_node = _from_dict(child, node)\n        node.add_child(child_node)\n\n    return node",
    "        child_node = _from_dict(child, node)\n        node.add_child(child_node)\n    if parent is None:\n        Node.fix_nsmap(node)\n\n    return node",
    "loader 'repairs' namespace maps after loading: the parent's binding wins")
mut("c06-converter-wrong-slot", "C06", CONV,
    "        model[node].insert(4, {\"extras\": {}})\n        model[node].insert(6, {\"tail\": None})\n",
    "        model[node].insert(4, {\"extras\": {}})\n        model[node].insert(5, {\"tail\": None})\n",
    "converter inserts the tail slot before content")
mut("c06-legacy-loader-drops-empty-content", "C06", MPIO,
    "    content = body[2][\"content\"]\n    if content is not None:\n        node.content = content\n",
    "    content = body[2][\"content\"]\n    if content:\n        node.content = content\n",
    "legacy loader loses empty-string content")
mut("c06-loader-empty-string-fields", "C06", MIO,
    "    tail = body[6][\"tail\"]\n    if tail is not None:\n        node.tail = tail\n",
    "    tail = body[6][\"tail\"]\n    if tail:\n        node.tail = tail\n",
    "loader loses an empty-string tail")
mut("c06-serialiser-dedups-nsmap", "C06", MIO,
    "    j[node.name].append({\"nsmap\": node.nsmap})\n",
    "    j[node.name].append({\"nsmap\": node.nsmap if node.parent is None or node.nsmap != node.parent.nsmap else {}})\n",
    "serialiser omits a namespace map equal to the parent's; the loader's attach restores it -- except the order and after detach")


mut("c06-loader-attaches-through-child-list", "C06", MIO,
    "        child_node = _from_dict(child, node)\n        node.add_child(child_node)\n",
    "        child_node = _from_dict(child, None)\n        node.children.append(child_node)\n",
    "the loader appends to the child list directly: loaded children have no parent link")


def main():
    with open(os.path.join(HERE, "mutants", "index.json")) as f:
        mine = set(m["id"] for m in M)
        index = [m for m in json.load(f) if m["id"].startswith("revert-") and m["id"] not in mine]
    tmp = tempfile.mkdtemp(prefix="verif-mkmut-")
    wt = os.path.join(tmp, "wt")
    subprocess.run(["git", "-C", "/repo", "worktree", "add", "--detach", wt, "HEAD"], check=True, capture_output=True)
    try:
        for m in M:
            path = os.path.join(wt, m["file"])
            with open(path) as f:
                s = f.read()
            if s.count(m["old"]) != 1:
                print("SKIP %s: old text found %d times" % (m["id"], s.count(m["old"])))
                continue
            with open(path, "w") as f:
                f.write(s.replace(m["old"], m["new"]))
            d = subprocess.run(["git", "-C", wt, "diff"], capture_output=True, text=True, check=True).stdout
            with open(os.path.join(HERE, "mutants", m["id"] + ".diff"), "w") as f:
                f.write(d)
            subprocess.run(["git", "-C", wt, "checkout", "--", "."], check=True)
            index.append({"id": m["id"], "property": m["property"], "patch": m["id"] + ".diff",
                          "kind": "hand-written", "note": m["note"], "budget": m["budget"]})
    finally:
        subprocess.run(["git", "-C", "/repo", "worktree", "remove", "--force", wt], capture_output=True)
        shutil.rmtree(tmp, ignore_errors=True)
        subprocess.run(["git", "-C", "/repo", "worktree", "prune"], capture_output=True)
    with open(os.path.join(HERE, "mutants", "index.json"), "w") as f:
        json.dump(index, f, indent=1)
    print("%d mutants in index" % len(index))


if __name__ == "__main__":
    main()
