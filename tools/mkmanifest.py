#!/usr/bin/env python3
"""Writes /verif/MANIFEST.json from one table, so that it stays consistent."""
import json
import os

HERE = os.path.dirname(os.path.dirname(os.path.realpath(__file__)))

CLAIMED = {
    "C06": ("persist", "Seeded histories of edits over 1-4 sessions with crash/restart as a generated operation: every document is written to a simulated durable store as JSON text, every node object and the whole registry are destroyed, the world is rebuilt from the text alone (current codec, legacy codec, legacy + bundled converter) and compared field by field, link by link, byte by byte with what was saved; the run then continues on the reloaded world and restarts again."),
    "C09": ("edits", "Seeded histories of tree edits, failing edits and queries over small universes, each step judged by one-step refinement against an ordered-list model computed from the observed pre-state, with a whole-world frame condition (every child list of every session) and the listed-child/parent-link invariant after every step."),
    "C11": ("readonly", "Long seeded orders of every read-only operation over generic forests, EML seed documents and imported corpus documents carrying XML-hostile text, interleaved with mutating steps: whole-world snapshot (all fields, child order, namespace maps, parent links, registry key set) identical around every read-only step, and same question / no mutation in between => same answer."),
    "C12": ("copy", "Seeded histories that copy a subtree and then aim bursts of single edits at the copy or the original: at the copy step deep equality, fresh registered ids and inward parent links; afterwards every cell of every node of the counterpart is frame."),
    "C13": ("namespaces", "Seeded histories over the hidden alias structure of shared namespace dictionaries (attach, declare, re-declare, remove, detach and re-attach elsewhere, set_nsmap, fix_nsmap, copy) in 1-3 sessions with tiny prefix/URI pools; per-subtree effect and isolation of every node outside the subtree, by value, after every step."),
    "C14": ("registry", "2-4 logical sessions on the one process-wide registry, with the clock, clock-sequence PRNG and host id behind uuid1 simulated and faulted (frozen, coarse, backward, forward clock), restarts, partial unregistration, prune and expand on EML documents: registration effect per operation, id uniqueness over every node object ever held, whole-registry frame after every step."),
    "C15": ("prune", "EML documents and fragments with corruption planted by ordinary edits (unknown, misplaced, invalid nodes at random depths, foreign content below metadata), then prune as a mutating step on the shared world in both modes, then prune again: exact result for non-strict mode from the harness's own reading of rules.json, offender/validity clauses for strict mode, returned list, registry, metadata opacity, idempotence, whole-world frame."),
    "C16": ("expand", "Scripted EML documents satisfying the stated precondition with 0-6 references in any document order and at most one fault (dangling, empty, duplicated id) placed at a random position among resolvable references: copies in place, sources and everything else frame, validity preserved, later edits on either side invisible on the other, and ValueError with the whole world unchanged on failure."),
}

NA = {
    "C01": "Acceptance of a child-name sequence is a pure function of (rule, sequence): a fresh Rule object is built per call and no state survives it. Nothing to schedule, time or fault; language equivalence is settled by conformance suites or enumeration, a different technique.",
    "C02": "Content validation is a pure function of (rule, string); the work is boundary and partition enumeration of inputs, with no history, clock, I/O or shared state for a simulator to own.",
    "C03": "Attribute validation is a pure function of (rule, attribute assignment) over a finite abstraction that is meant to be enumerated completely, not sampled along histories.",
    "C04": "Totality of validation is a statement about one call on one input tree; its 'faults' are malformed inputs (fuzzing), and validation meets no environment (I/O, clock, shared mutable state) that could fail under it. (Two such defects surfaced through prune in the C15 simulation and were repaired, see DESIGN.md section 11, but the property itself is not decided here.)",
    "C05": "Relates two pure functions (tree and node validation) on one unchanging input; no history and no state.",
    "C07": "XML export is a pure tree-to-text function whose judge is a pair of independent XML parsers, evaluated once per generated tree.",
    "C08": "XML import is a pure text-to-tree function over generated documents compared with an independent parse; the inputs are documents, not histories.",
    "C10": "Closure and well-formedness of the shipped rule and name tables is a static fact decided by complete enumeration of those tables.",
    "C17": "The insertion index is a pure query of (rule, existing child sequence, name), judged against an independent notion of validity per input.",
    "C18": "Structural equality is a pure binary predicate on two trees; a simulator would only be a generator of pairs.",
    "C19": "Evaluation is a pure function of a tree appending to a caller's list; thresholds and totality are input partitions.",
    "C20": "Normalisation is a pure string-to-string function (and one XSLT application to one document).",
}


def main():
    checks = []
    for pid, (profile, text) in sorted(CLAIMED.items()):
        checks.append({
            "property_id": pid,
            "quick_cmd": "./check %s --tier quick" % pid,
            "thorough_cmd": "./check %s --tier thorough" % pid,
            "evidence_file": "evidence/%s.json" % pid,
            "replay_cmd_template": "./check %s --replay {path}" % pid,
            "engine": "sim",
            "level_claimed": {
                "category": "exploration",
                "text": text + " Seeded search over operation, schedule and fault sequences (one integer decides a run; 10^4-10^5 runs per quick check, 10^5-10^6 per thorough check): evidence, not proof.",
                "design_ref": "DESIGN.md section 5 (%s), sections 4 and 7" % pid,
            },
            "level_note": "Trusted: the step specification in sim/ops.py, sim/emlops.py and sim/profiles*.py (the executable reading of the property), the snapshot of the world through the library's public properties, CPython's pure-Python uuid1 under the simulated clock. Assumed: API-call granularity of interleaving (the library has no threads, timers or I/O); known_findings.json holds no open entry at present (fixed: records only).",
            "technique": "deterministic simulation with fault injection: seeded multi-session histories against the real library, one-step refinement against a reference model with whole-world frame condition, ddmin-minimised replay files (profile '%s')" % profile,
        })
    doc = {
        "version": 1,
        "setup_cmd": "./selftest setup",
        "hooks": {
            "guard": "METAPYPE_EML_VERIF",
            "enable": "No hook exists: every seam (uuid/time/random/os.urandom module attributes, the public class attribute Node.store) is reachable from outside the repository, so checks import /repo/src as it stands. The guard variable is read by nothing.",
            "baseline_off_cmd": "cd /repo && /venv/bin/python -m pytest -ra -q -p no:cacheprovider --timeout=900 --continue-on-collection-errors",
            "source_commits": [],
            "add_only": True,
        },
        "engines": [{
            "name": "sim",
            "path": "sim/",
            "serves_properties": sorted(CLAIMED),
            "kind_free_text": "Python discrete-event simulator at API-call granularity: simulated clock/PRNG/host id behind uuid1, logical sessions over the shared registry, crash/restart over a simulated durable JSON store, seeded swarm generation, check-then-adopt refinement against a reference model, ddmin shrinking, replay files.",
        }],
        "checks": checks,
        "not_applicable": [{"property_id": k, "reason": v} for k, v in sorted(NA.items())],
        "notes": "Technique family: deterministic simulation with fault injection. 8 properties claimed, 12 not applicable (pure functions of one input; see DESIGN.md sections 3 and 6). Genuine defects found were repaired in /repo as 'fix:' commits or are listed in known_findings.json.",
    }
    with open(os.path.join(HERE, "MANIFEST.json"), "w") as f:
        json.dump(doc, f, indent=1)
        f.write("\n")


if __name__ == "__main__":
    main()
